/* every operator on long / long long */
int printf(const char *, ...);
#define LMAX 9223372036854775807L
#define LMIN (-LMAX - 1)
static const long v[] = {0, 1, -1, 2, -3, 1000, -1000, 2147483647L, 2147483648L, -2147483648L, -2147483649L, 4294967295L, 4294967296L,
	0x123456789abcdefL, -0x123456789abcdefL, LMAX, LMIN, 0x5555555555555555L};
#define N (int)(sizeof v / sizeof v[0])
static int add_ok(long a, long b) { return !((b > 0 && a > LMAX - b) || (b < 0 && a < LMIN - b)); }
static int sub_ok(long a, long b) { return !((b < 0 && a > LMAX + b) || (b > 0 && a < LMIN + b)); }
static int small(long a) { return a > -2147483648L && a < 2147483648L; }
static int mul_ok(long a, long b) { return (small(a) && small(b)) || a == 0 || b == 0 || a == 1 || b == 1; }
int main(void)
{
	unsigned long h = 0;
	int i, j;
	for (i = 0; i < N; i++) {
		long a = v[i];
		long long ll = a;
		printf("a=%ld ~%ld !%d ll=%lld", a, ~a, !a, ll);
		if (a != LMIN) printf(" -%ld", -a);
		printf("\n");
		for (j = 0; j < N; j++) {
			long b = v[j];
			printf("%ld,%ld:", a, b);
			if (add_ok(a, b)) printf(" add=%ld", a + b);
			if (sub_ok(a, b)) printf(" sub=%ld", a - b);
			if (mul_ok(a, b)) printf(" mul=%ld", a * b);
			if (b != 0 && !(a == LMIN && b == -1)) printf(" div=%ld rem=%ld", a / b, a % b);
			printf(" and=%ld or=%ld xor=%ld", a & b, a | b, a ^ b);
			printf(" lt=%d le=%d gt=%d ge=%d eq=%d ne=%d", a < b, a <= b, a > b, a >= b, a == b, a != b);
			printf(" land=%d lor=%d", a && b, a || b);
			if (b >= 0 && b < 64) {
				printf(" sar=%ld", a >> b);
				if (a >= 0 && (b == 0 || a <= (LMAX >> b))) printf(" shl=%ld", a << b);
			}
			printf("\n");
			h = h * 31 + (unsigned long)(a ^ b);
		}
	}
	for (i = 0; i < 64; i++)
		printf("%d: %lu %ld %ld\n", i, 1ul << i, LMIN >> i, -12345678901234L >> i);
	printf("h=%lu\n", h);
	return (int)(h % 97);
}
