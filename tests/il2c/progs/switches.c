/* switch: dense, sparse, negative, long and unsigned controlling expressions, fallthrough, default placement, nested, in loops */
int printf(const char *, ...);
static int dense(int x) { switch (x) { case 0: return 10; case 1: return 11; case 2: return 12; case 3: return 13; case 4: return 14; case 5: return 15; case 6: return 16; case 7: return 17; } return -1; }
static int sparse(int x) { switch (x) { case -1000000: return 1; case -5: return 2; case 0: return 3; case 7: return 4; case 100: return 5; case 65536: return 6; case 2147483647: return 7; case -2147483647 - 1: return 8; default: return 0; } }
static int fall(int x) { int r = 0; switch (x) { case 1: r += 1; case 2: r += 2; case 3: r += 4; break; default: r = 100; case 5: r += 8; break; case 6: r += 16; } return r; }
static int lng(long x) { switch (x) { case 0x100000000L: return 1; case -0x100000000L: return 2; case 1: return 3; case 0x7fffffffffffffffL: return 4; case 0x100000001L: return 5; } return 0; }
static int uns(unsigned x) { switch (x) { case 0xffffffffu: return 1; case 0x80000000u: return 2; case 0: return 3; case 5: return 4; } return 0; }
static int chr(char c) { switch (c) { case 'a': case 'e': case 'i': case 'o': case 'u': return 1; case ' ': return 2; case '\n': return 3; case -1: return 4; } return 0; }
enum color { RED, GREEN = 5, BLUE };
static const char *name(enum color c) { switch (c) { case RED: return "red"; case GREEN: return "green"; case BLUE: return "blue"; } return "?"; }
static int nested(int a, int b)
{
	int r = 0;
	switch (a) {
	case 0:
		switch (b) { case 0: r = 1; break; case 1: r = 2; break; default: r = 3; }
		break;
	case 1:
		while (b-- > 0) { switch (b & 3) { case 0: r += 1; continue; case 1: r += 10; break; case 2: goto out; } r += 100; }
		break;
	default:
	out:
		r += 1000;
	}
	return r;
}
static int duff(char *to, const char *from, int count)
{
	int n = (count + 3) / 4, copied = 0;
	if (count <= 0) return 0;
	switch (count % 4) {
	case 0: do { *to++ = *from++; copied++;
	case 3: *to++ = *from++; copied++;
	case 2: *to++ = *from++; copied++;
	case 1: *to++ = *from++; copied++;
		} while (--n > 0);
	}
	return copied;
}
int main(void)
{
	int i, h = 0;
	static const int sv[] = {-1000000, -5, 0, 7, 100, 65536, 2147483647, -2147483647 - 1, 1, -1, 99, 101, 65535};
	static const long lv[] = {0x100000000L, -0x100000000L, 1, 0x7fffffffffffffffL, 0x100000001L, 0, 0x200000001L, 0x1L << 40, -1};
	static const unsigned uv[] = {0xffffffffu, 0x80000000u, 0, 5, 6, 0x7fffffffu};
	char buf[32];
	for (i = -2; i < 10; i++) { printf("%d:%d,%d ", i, dense(i), fall(i)); h += dense(i); }
	printf("\n");
	for (i = 0; i < 13; i++) printf("%d ", sparse(sv[i]));
	printf("\n");
	for (i = 0; i < 9; i++) printf("%d ", lng(lv[i]));
	printf("\n");
	for (i = 0; i < 6; i++) printf("%d ", uns(uv[i]));
	printf("\n");
	for (i = 0; i < 12; i++) printf("%d ", chr("a b\nxyzu\377e_"[i]));
	printf("\n%s %s %s %s\n", name(RED), name(GREEN), name(BLUE), name((enum color)3));
	for (i = 0; i < 3; i++) { int j; for (j = 0; j < 7; j++) printf("%d ", nested(i, j)); }
	printf("\n");
	for (i = 0; i < 12; i++) { int j, n; for (j = 0; j < 32; j++) buf[j] = 0; n = duff(buf, "abcdefghijklmnop", i); printf("%d:%s ", n, buf); }
	printf("\n");
	return h & 0x7f;
}
