/* double arithmetic and comparisons, including NaN, infinities, signed zero, denormals */
int printf(const char *, ...);
static unsigned long bits(double f) { union { double f; unsigned long u; } x; x.f = f; return x.u; }
static unsigned long cb(double f) { return f != f ? 0x7ff8000000000000ul : bits(f); }
static double frombits(unsigned long u) { union { double f; unsigned long u; } x; x.u = u; return x.f; }
int main(void)
{
	double v[20];
	int n = 0, i, j, cnt = 0;
	double zero = 0.0;
	v[n++] = 0.0; v[n++] = -zero; v[n++] = 1.0; v[n++] = -1.0; v[n++] = 0.5; v[n++] = 1.5; v[n++] = -2.25;
	v[n++] = 3.14159274; v[n++] = 1e10; v[n++] = -1e-10; v[n++] = 16777216.0; v[n++] = 9007199254740993.0; v[n++] = 1.7976931348623157e308;
	v[n++] = 2.2250738585072014e-308; v[n++] = frombits(1); v[n++] = 1.0 / zero; v[n++] = -1.0 / zero; v[n++] = frombits(0x7ff8000000000000ul); v[n++] = 0.1; v[n++] = 100.0;
	for (i = 0; i < n; i++) {
		double a = v[i];
		printf("a=%016lx neg=%016lx !%d bool=%d\n", cb(a), cb(-a), !a, a ? 1 : 0);
		for (j = 0; j < n; j++) {
			double b = v[j];
			double s = a + b, d = a - b, m = a * b, q = a / b;
			/* NaN results: sign/payload may legitimately differ; print them canonically */
			printf("%016lx,%016lx: add=%016lx sub=%016lx mul=%016lx div=%016lx", cb(a), cb(b), cb(s), cb(d), cb(m), cb(q));
			printf(" lt=%d le=%d gt=%d ge=%d eq=%d ne=%d land=%d lor=%d\n", a < b, a <= b, a > b, a >= b, a == b, a != b, a && b, a || b);
			cnt += (a < b) + 2 * (a == b) + 3 * (a != b);
		}
	}
	{
		double acc = 0.0, x = 1.0;
		for (i = 0; i < 50; i++) { acc += x / (double)(i + 1); x *= -0.5; }
		printf("series=%016lx %.9g\n", bits(acc), acc);
		acc = 1.0; acc += 1.0; acc -= 0.25; acc *= 3.0; acc /= 7.0;
		printf("compound=%016lx\n", bits(acc));
		acc++; ++acc; acc--; 
		printf("incdec=%016lx\n", bits(acc));
	}
	printf("cnt=%d\n", cnt);
	return cnt & 63;
}
