/* unions: type punning through members, by-value passing and returning, unions in structs */
int printf(const char *, ...);
union iu { int i; unsigned u; float f; unsigned char b[4]; };
union du { double d; unsigned long l; unsigned w[2]; char c[8]; };
union big { char c[24]; double d[3]; long l[3]; struct { int a; float b; } s; };
union small { char c; short s; };
struct tagged { int tag; union { int i; double d; const char *s; struct { short x, y; } p; } v; };
static union iu mkiu(float f) { union iu u; u.f = f; return u; }
static unsigned getu(union iu u) { return u.u; }
static union du mkdu(double d) { union du u; u.d = d; return u; }
static union big mkbig(int k) { union big b; int i; for (i = 0; i < 3; i++) b.l[i] = 0x0101010101010101L * (k + i); return b; }
static long sumbig(union big b) { return b.l[0] + b.l[1] + b.l[2] + b.c[23]; }
static union small mksmall(int k) { union small s; s.s = (short)k; return s; }
static void show(struct tagged t)
{
	switch (t.tag) {
	case 0: printf("int %d\n", t.v.i); break;
	case 1: printf("double %g\n", t.v.d); break;
	case 2: printf("str %s\n", t.v.s); break;
	default: printf("pt %d,%d\n", t.v.p.x, t.v.p.y); break;
	}
}
static struct tagged mkt(int tag, int k)
{
	struct tagged t;
	t.tag = tag;
	if (tag == 0) t.v.i = k; else if (tag == 1) t.v.d = k * 0.5; else if (tag == 2) t.v.s = "hello" + (k & 3); else { t.v.p.x = k; t.v.p.y = -k; }
	return t;
}
int main(void)
{
	union iu a;
	union du d;
	int k;
	a.f = 1.0f; printf("%08x %d\n", a.u, a.i);
	a.i = -2; printf("%u %d %d %d %d\n", a.u, a.b[0], a.b[1], a.b[2], a.b[3]);
	a.b[3] = 0x40; a.b[2] = 0x49; a.b[1] = 0x0f; a.b[0] = 0xdb; printf("%.7g\n", a.f);
	d.d = -2.5; printf("%016lx %08x %08x %d\n", d.l, d.w[0], d.w[1], d.c[7]);
	d.l = 0x3ff8000000000000ul; printf("%g\n", d.d);
	printf("sizes %d %d %d %d %d\n", (int)sizeof(union iu), (int)sizeof(union du), (int)sizeof(union big), (int)sizeof(union small), (int)sizeof(struct tagged));
	for (k = 0; k < 6; k++) {
		union big b = mkbig(k), c;
		c = b;
		printf("%08x %016lx %ld %d %d\n", getu(mkiu(k * 1.25f)), mkdu(k / 7.0).l, sumbig(c), mksmall(k * 1000 - 2000).c, mksmall(-k).s);
		show(mkt(k & 3, k * 11));
	}
	{
		struct tagged arr[4] = {{0, {.i = 42}}, {1, {.d = 2.75}}, {2, {.s = "lit"}}, {3, {.p = {7, 8}}}};
		for (k = 0; k < 4; k++) show(arr[k]);
	}
	return 0;
}
