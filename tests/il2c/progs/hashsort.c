/* heap data structures through libc: malloc/realloc/free, strings, hash table with chaining, sorting records */
int printf(const char *, ...);
void *malloc(unsigned long);
void *calloc(unsigned long, unsigned long);
void *realloc(void *, unsigned long);
void free(void *);
void *memcpy(void *, const void *, unsigned long);
void *memset(void *, int, unsigned long);
int memcmp(const void *, const void *, unsigned long);
unsigned long strlen(const char *);
int strcmp(const char *, const char *);
char *strcpy(char *, const char *);
void qsort(void *, unsigned long, unsigned long, int (*)(const void *, const void *));
struct entry { struct entry *next; unsigned hash; int count; char key[]; };
struct table { struct entry **bucket; unsigned nbucket, nentry; };
static unsigned hash(const char *s) { unsigned h = 2166136261u; while (*s) { h ^= (unsigned char)*s++; h *= 16777619u; } return h; }
static void grow(struct table *t)
{
	unsigned n = t->nbucket ? t->nbucket * 2 : 4, i;
	struct entry **nb = calloc(n, sizeof *nb), *e, *next;
	for (i = 0; i < t->nbucket; i++) for (e = t->bucket[i]; e; e = next) { next = e->next; e->next = nb[e->hash & (n - 1)]; nb[e->hash & (n - 1)] = e; }
	free(t->bucket); t->bucket = nb; t->nbucket = n;
}
static struct entry *get(struct table *t, const char *key)
{
	unsigned h = hash(key);
	struct entry *e;
	if (t->nentry >= t->nbucket) grow(t);
	for (e = t->bucket[h & (t->nbucket - 1)]; e; e = e->next) if (e->hash == h && strcmp(e->key, key) == 0) return e;
	e = malloc(sizeof *e + strlen(key) + 1);
	e->hash = h; e->count = 0; strcpy(e->key, key);
	e->next = t->bucket[h & (t->nbucket - 1)]; t->bucket[h & (t->nbucket - 1)] = e; t->nentry++;
	return e;
}
static int bycount(const void *a, const void *b)
{
	const struct entry *x = *(struct entry *const *)a, *y = *(struct entry *const *)b;
	if (x->count != y->count) return y->count - x->count;
	return strcmp(x->key, y->key);
}
static const char text[] = "the quick brown fox jumps over the lazy dog and the dog barks at the fox while the cat sleeps on the mat "
	"a cat and a dog and a fox walk into a bar the bar is quick to close";
int main(void)
{
	struct table t = {0};
	struct entry **all, *e, *next;
	char word[32];
	unsigned i, n = 0, k = 0;
	int *v = 0, cap = 0, len = 0, sum = 0;
	const char *p;
	for (p = text;; p++) {
		if (*p == ' ' || !*p) { if (k) { word[k] = 0; get(&t, word)->count++; k = 0; } if (!*p) break; }
		else if (k < sizeof word - 1) word[k++] = *p;
	}
	all = malloc(t.nentry * sizeof *all);
	for (i = 0; i < t.nbucket; i++) for (e = t.bucket[i]; e; e = e->next) all[n++] = e;
	qsort(all, n, sizeof *all, bycount);
	printf("%u words, %u buckets\n", t.nentry, t.nbucket);
	for (i = 0; i < n; i++) printf("%s=%d ", all[i]->key, all[i]->count);
	printf("\n");
	for (i = 0; i < 1000; i++) { if (len == cap) { cap = cap ? cap * 2 : 1; v = realloc(v, cap * sizeof *v); } v[len++] = (int)(i * 7919u % 1000u); }
	for (i = 0; i < 1000; i++) sum += v[i] * (int)(i & 3);
	{
		char a[40], b[40];
		memset(a, 'x', sizeof a); memcpy(b, a, sizeof b); b[20] = 'y';
		printf("%d %d %d %d\n", sum, cap, memcmp(a, b, 20), memcmp(a, b, 40) < 0);
	}
	for (i = 0; i < t.nbucket; i++) for (e = t.bucket[i]; e; e = next) { next = e->next; free(e); }
	free(t.bucket); free(all); free(v);
	return (int)n;
}
