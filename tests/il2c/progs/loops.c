/* loops: for/while/do, break/continue, nested, comma, empty parts, goto in and out */
int printf(const char *, ...);
static int collatz(unsigned long n) { int steps = 0; while (n != 1) { n = n & 1 ? 3 * n + 1 : n / 2; steps++; } return steps; }
static int primes(int limit, char *sieve) { int i, j, c = 0; for (i = 0; i <= limit; i++) sieve[i] = 1; sieve[0] = sieve[1] = 0;
	for (i = 2; i * i <= limit; i++) if (sieve[i]) for (j = i * i; j <= limit; j += i) sieve[j] = 0;
	for (i = 0; i <= limit; i++) c += sieve[i]; return c; }
static unsigned gcd(unsigned a, unsigned b) { while (b) { unsigned t = a % b; a = b; b = t; } return a; }
int main(void)
{
	int i, j, k, s;
	char sieve[1001];
	for (i = 0, j = 10; i < j; i++, j--) printf("%d,%d ", i, j);
	printf("\n");
	s = 0; i = 0;
	for (;;) { if (++i > 100) break; if (i % 3 == 0) continue; if (i % 7 == 0) continue; s += i; }
	printf("%d\n", s);
	i = 0; do { i += 3; } while (i < 20); printf("%d\n", i);
	i = 5; do i--; while (0); printf("%d\n", i);
	i = 10; while (i --> 0) if (i == 4) break; printf("%d\n", i);
	s = 0;
	for (i = 0; i < 10; i++) { for (j = 0; j < 10; j++) { if (j > i) break; for (k = 0; k < 3; k++) { if (k == 1) continue; s += i * j + k; } } if (s > 500) break; }
	printf("%d %d %d\n", s, i, j);
	for (i = 1; i < 30; i += 7) printf("%d ", collatz(i * 97ul));
	k = primes(1000, sieve);
	printf("\n%d %d %d\n", k, sieve[997], sieve[999]);
	printf("%u %u %u\n", gcd(1071, 462), gcd(0xffffffffu, 0x10001u), gcd(17, 0));
	{
		unsigned long f0 = 0, f1 = 1, t; int n;
		for (n = 0; n < 93; n++) { t = f0 + f1; f0 = f1; f1 = t; }
		printf("%lu\n", f0);
		unsigned crc = 0xffffffffu; const char *p;
		for (p = "The quick brown fox jumps over the lazy dog"; *p; p++) { crc ^= (unsigned char)*p; for (k = 0; k < 8; k++) crc = crc >> 1 ^ (0xedb88320u & -(crc & 1)); }
		printf("%08x\n", ~crc);
		double x = 2.0; for (n = 0; n < 6; n++) x = (x + 2.0 / x) / 2; printf("%.17g\n", x);
		for (float f = 0; f < 1; f += 0.125f) s++;
		for (unsigned char c = 250; c != 4; c++) s++;
		for (long l = 1; l < 1L << 40; l <<= 7) s++;
		printf("%d\n", s);
	}
	return s & 0x7f;
}
