/* string literals: narrow, wide, UTF-8/16/32, escapes, concatenation, sizeof, identical literals, char constants */
int printf(const char *, ...);
unsigned long strlen(const char *);
int strcmp(const char *, const char *);
typedef int wchar_t;
typedef unsigned short char16_t;
typedef unsigned int char32_t;
static const char esc[] = "a\tb\nc\\d\"e\'f\?g\a\b\f\r\v\0h\x41\x7f\101\1\12z";
static const char cat[] = "abc" "def" /* comment */ "ghi";
static const wchar_t wide[] = L"w\x1234\n😀z";
static const char16_t u16[] = u"hé中!";
static const char32_t u32[] = U"𐀀a";
static const char u8s[] = u8"é中😀";
static const char *ptrs[] = {"first", "second", "first"};
static char mod[] = "modifiable";
int main(void)
{
	unsigned i;
	const char *p = "pointer to literal";
	const wchar_t *wp = L"ab";
	wchar_t w2[] = L"xyz";
	printf("%d %d %d %d %d %d\n", (int)sizeof esc, (int)sizeof cat, (int)sizeof wide, (int)sizeof u16, (int)sizeof u32, (int)sizeof u8s);
	for (i = 0; i < sizeof esc; i++) printf("%d ", esc[i]);
	printf("\n%s %lu\n", cat, strlen(cat));
	for (i = 0; i < sizeof wide / sizeof wide[0]; i++) printf("%x ", (unsigned)wide[i]);
	printf("\n");
	for (i = 0; i < sizeof u16 / sizeof u16[0]; i++) printf("%x ", u16[i]);
	printf("\n");
	for (i = 0; i < sizeof u32 / sizeof u32[0]; i++) printf("%x ", u32[i]);
	printf("\n");
	for (i = 0; i < sizeof u8s; i++) printf("%x ", (unsigned char)u8s[i]);
	printf("\n%s %c %c %d\n", p + 11, p[0], "index"[2], (int)sizeof "sizeof me");
	printf("%d %d %d\n", strcmp(ptrs[0], ptrs[2]), strcmp(ptrs[0], ptrs[1]) < 0, (int)strlen(ptrs[1]));
	mod[0] = 'M'; mod[9] = 'E';
	printf("%s %d %d %d %d\n", mod, wp[0], wp[1], wp[2], (int)(sizeof w2 / sizeof w2[0]));
	printf("%d %d %d %d %d %d\n", 'a', '\n', '\177', '\x7e', L'\x1234', '\0');
	printf("%d %d\n", u'é', (int)U'😀');
	printf("%s|%5s|%-5s|%.2s|%c%c\n", "plain", "ab", "cd", "truncate", 'x', 65);
	return (int)strlen(esc);
}
