/* numeric kernels: double/float matrices, mixed int/double arithmetic, libm calls, accumulation order */
int printf(const char *, ...);
double sqrt(double);
double fabs(double);
double floor(double);
double pow(double, double);
float sqrtf(float);
#define N 6
static void matmul(double c[N][N], double a[N][N], double b[N][N]) { int i, j, k; for (i = 0; i < N; i++) for (j = 0; j < N; j++) { double s = 0; for (k = 0; k < N; k++) s += a[i][k] * b[k][j]; c[i][j] = s; } }
static double det(double m[N][N])
{
	double a[N][N], d = 1;
	int i, j, k, p;
	for (i = 0; i < N; i++) for (j = 0; j < N; j++) a[i][j] = m[i][j];
	for (i = 0; i < N; i++) {
		p = i;
		for (k = i + 1; k < N; k++) if (fabs(a[k][i]) > fabs(a[p][i])) p = k;
		if (a[p][i] == 0) return 0;
		if (p != i) { for (j = 0; j < N; j++) { double t = a[i][j]; a[i][j] = a[p][j]; a[p][j] = t; } d = -d; }
		d *= a[i][i];
		for (k = i + 1; k < N; k++) { double f = a[k][i] / a[i][i]; for (j = i; j < N; j++) a[k][j] -= f * a[i][j]; }
	}
	return d;
}
struct stats { double mean, var; float fmean; int n; long isum; };
static struct stats stats(const int *v, int n)
{
	struct stats s = {0};
	int i;
	float fs = 0;
	for (i = 0; i < n; i++) { s.isum += v[i]; fs += v[i]; }
	s.n = n; s.mean = (double)s.isum / n; s.fmean = fs / n;
	for (i = 0; i < n; i++) s.var += (v[i] - s.mean) * (v[i] - s.mean);
	s.var /= n - 1;
	return s;
}
int main(void)
{
	double a[N][N], b[N][N], c[N][N], tr = 0;
	int i, j, v[50];
	float fa[8], fsum = 0;
	struct stats st;
	for (i = 0; i < N; i++) for (j = 0; j < N; j++) { a[i][j] = 1.0 / (i + j + 1); b[i][j] = (i == j) * 2 + (i - j) * 0.25; }
	matmul(c, a, b);
	for (i = 0; i < N; i++) tr += c[i][i];
	printf("%.17g %.17g %.17g\n", tr, c[2][3], c[5][0]);
	printf("%.10g %.17g\n", det(a), det(b));
	for (i = 0; i < 50; i++) v[i] = (i * i * 31 + 7) % 101 - 50;
	st = stats(v, 50);
	printf("%.17g %.17g %.9g %d %ld\n", st.mean, st.var, st.fmean, st.n, st.isum);
	for (i = 0; i < 8; i++) { fa[i] = sqrtf((float)(i * 3 + 1)) / 3; fsum += fa[i] * fa[i]; }
	printf("%.9g %.9g %.17g\n", fsum, fa[7], sqrt(2.0) * sqrt(2.0));
	printf("%.17g %.17g %g %g\n", pow(2.0, 0.5), pow(1.0001, 10000), floor(-2.5), floor(2.5));
	printf("%g %g %g %g\n", 7 / 2 * 2.0, 7 / 2.0 * 2, (float)1 / 3 * 3, 1e308 * 10);
	printf("%d %d %d\n", 0.1 + 0.2 == 0.3, 0.1f + 0.2f == 0.3f, (float)0.1 == 0.1);
	printf("%.17g %.9g\n", 0.1 + 0.2, 0.1f + 0.2f);
	return st.n;
}
