/* calls from cproc code to variadic libc functions with mixed int/double/pointer/long arguments */
int printf(const char *, ...);
int snprintf(char *, unsigned long, const char *, ...);
int sscanf(const char *, const char *, ...);
int main(void)
{
	char buf[256], word[16];
	int i = -7, n, a, b;
	unsigned u = 4000000000u;
	long l = -1234567890123L;
	unsigned long ul = 18446744073709551615ul;
	short s = -300;
	unsigned char uc = 250;
	char c = 'z';
	float f = 1.5f;
	double d = -2.718281828459045, e;
	const char *str = "text";
	int *p = &i;
	printf("%d %u %ld %lu %hd %hhu %c %f %g %s %d\n", i, u, l, ul, s, uc, c, f, d, str, *p);
	printf("%d %g %d %g %d %g %d %g %d %g %d %g %d %g %d %g %d %g %d %g\n", 1, 1.5, 2, 2.5, 3, 3.5, 4, 4.5, 5, 5.5, 6, 6.5, 7, 7.5, 8, 8.5, 9, 9.5, 10, 10.5);
	printf("%ld %ld %ld %ld %ld %ld %ld %ld %ld %ld\n", 1L, 2L, 3L, 4L, 5L, 6L, 7L, 8L, 9L, 10L);
	printf("%g %g %g %g %g %g %g %g %g %g %g\n", .1, .2, .3, .4, .5, .6, .7, .8, .9, 1.0, 1.1);
	printf("%s %s %d %s\n", "a", "b" + 0, (int)sizeof(long), &"xyz"[1]);
	printf("%5d|%-5d|%05d|%+d|%x|%X|%o|%#x|%lld|%llu\n", 42, 42, 42, 42, 255, 255, 8, 255, -1LL, 1ULL << 63);
	printf("%10.3f|%-10.2e|%.0f|%G|%a\n", 3.14159, 31415.9, 2.5, 1e-10, 1.0);
	printf("%*d|%-*d|%.*s|%%\n", 6, 1, 6, 2, 3, "abcdef");
	printf("%c%c%c %d %d\n", 'a', 98, c - 23, (char)-1, (unsigned char)-1);
	printf("%d %d %g %g\n", s, uc, f, (double)f * 2);
	n = snprintf(buf, sizeof buf, "%s-%d-%g-%lu", str, i, d, ul);
	printf("%d %s\n", n, buf);
	n = sscanf("12 -34 word 5.25", "%d %d %15s %lf", &a, &b, word, &e);
	printf("%d %d %d %s %g\n", n, a, b, word, e);
	n = printf("%s", "");
	printf("%d %d\n", n, printf("12345\n"));
	return printf("%d%s\n", 99, "!") ;
}
