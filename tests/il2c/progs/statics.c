/* static locals, static/extern globals, tentative definitions, _Thread_local, initial values, const */
int printf(const char *, ...);
static int counter(void) { static int n; return ++n; }
static unsigned rnd(void) { static unsigned state = 2463534242u; state ^= state << 13; state ^= state >> 17; state ^= state << 5; return state; }
static const char *names(int i) { static const char *const tab[] = {"zero", "one", "two"}; return tab[i % 3]; }
static double *accum(double x) { static double acc[2] = {1.0, -1.0}; acc[0] += x; acc[1] *= x; return acc; }
int tentative;
int tentative;
static long hidden = 0x1122334455667788L;
long visible = -5;
extern long visible;
const int konst = 42;
static char zeros[1000];
static struct { int a; char b; double c; } agg = {1, 'q', 2.5}, aggz;
_Thread_local int tls_a = 7;
static _Thread_local long tls_b = -9;
_Thread_local char tls_buf[16] = "thread";
static _Thread_local double tls_zero;
static int *tls_addr(void) { return &tls_a; }
static int bump(void) { tls_a += 3; tls_b *= 2; tls_zero += 0.5; return tls_a; }
static int nested_static(int k) { int r = 0; { static int a = 100; a += k; r += a; } { static int a = 200; a -= k; r += a; } return r; }
int main(void)
{
	int i, s = 0;
	for (i = 0; i < 5; i++) s += counter();
	printf("%d ", s); printf("%d\n", counter());
	{ unsigned r1 = rnd(), r2 = rnd(); printf("%u %u %u\n", r1, r2, rnd()); }
	printf("%s %s %s\n", names(4), names(5), names(6));
	accum(2); accum(3);
	{ double a0 = accum(0.5)[0]; printf("%g %g\n", a0, accum(1)[1]); }
	tentative += 3;
	printf("%d %lx %ld %d\n", tentative, hidden, visible, konst);
	for (i = 0; i < 1000; i++) s += zeros[i];
	zeros[999] = 1;
	printf("%d %d %c %g %d %g\n", s, agg.a, agg.b, agg.c, aggz.a, aggz.c);
	printf("%d %ld %s %g\n", tls_a, tls_b, tls_buf, tls_zero);
	bump(); bump();
	*tls_addr() += 100;
	tls_buf[0] = 'T';
	printf("%d %ld %s %g %d\n", tls_a, tls_b, tls_buf, tls_zero, &tls_a == tls_addr());
	i = nested_static(1); printf("%d ", i); i = nested_static(10); printf("%d %d\n", i, nested_static(100));
	return s;
}
