/* struct assignment, passing and returning by value inside cproc-compiled code: sizes 1..40, int/float/double/mixed */
int printf(const char *, ...);
struct s1 { char a; };
struct s2 { short a; };
struct s3 { char a[3]; };
struct s4 { int a; };
struct s4f { float a; };
struct s7 { char a[7]; };
struct s8 { int a; float b; };
struct s8d { double a; };
struct s8ff { float a, b; };
struct s9 { char a[9]; };
struct s12 { int a; float b; int c; };
struct s12f { float a[3]; };
struct s16 { double a; long b; };
struct s16dd { double a, b; };
struct s16m { float a; int b; double c; };
struct s16f { float a[4]; };
struct s17 { char a[17]; };
struct s24 { double a; long b; int c; };
struct s24d { double a[3]; };
struct s32 { long a[2]; double b[2]; };
struct s40 { int a[10]; };
struct nest { struct s8 x; struct s3 y; struct s16dd z; };
#define DEF1(T, init, show) \
	static struct T mk_##T(int k) { struct T s; init; return s; } \
	static struct T id_##T(struct T s) { return s; } \
	static struct T mid_##T(int p, double q, struct T s, long r, float t) { struct T u; u = s; (void)p; (void)q; (void)r; (void)t; return u; } \
	static void show_##T(const char *tag, struct T s) { printf("%s " #T ":", tag); show; printf("\n"); } \
	static void test_##T(int k) { struct T a = mk_##T(k), b, c[2]; struct T *p = &c[1]; b = a; c[0] = id_##T(b); *p = mid_##T(1, 2.0, c[0], 3, 4.0f); \
		show_##T("a", a); show_##T("b", b); show_##T("c0", c[0]); show_##T("c1", *p); show_##T("t", id_##T(mk_##T(k + 1))); }
#define FORI(n, stmt) { int i; for (i = 0; i < n; i++) { stmt; } }
DEF1(s1, s.a = k, printf(" %d", s.a))
DEF1(s2, s.a = k * 300, printf(" %d", s.a))
DEF1(s3, FORI(3, s.a[i] = k + i), FORI(3, printf(" %d", s.a[i])))
DEF1(s4, s.a = k * 100000, printf(" %d", s.a))
DEF1(s4f, s.a = k * 1.5f, printf(" %g", s.a))
DEF1(s7, FORI(7, s.a[i] = k * i), FORI(7, printf(" %d", s.a[i])))
DEF1(s8, (s.a = -k, s.b = k / 4.0f), printf(" %d %g", s.a, s.b))
DEF1(s8d, s.a = k / 3.0, printf(" %.17g", s.a))
DEF1(s8ff, (s.a = k, s.b = -k * 0.5f), printf(" %g %g", s.a, s.b))
DEF1(s9, FORI(9, s.a[i] = k - i), FORI(9, printf(" %d", s.a[i])))
DEF1(s12, (s.a = k, s.b = k * 2.5f, s.c = ~k), printf(" %d %g %d", s.a, s.b, s.c))
DEF1(s12f, FORI(3, s.a[i] = k * 0.25f + i), FORI(3, printf(" %g", s.a[i])))
DEF1(s16, (s.a = k * 1e10, s.b = k * 10000000000L), printf(" %g %ld", s.a, s.b))
DEF1(s16dd, (s.a = k, s.b = 1.0 / (k + 100)), printf(" %g %.17g", s.a, s.b))
DEF1(s16m, (s.a = k * 0.5f, s.b = k * 7, s.c = k * 0.125), printf(" %g %d %g", s.a, s.b, s.c))
DEF1(s16f, FORI(4, s.a[i] = k + i * 0.5f), FORI(4, printf(" %g", s.a[i])))
DEF1(s17, FORI(17, s.a[i] = k + 2 * i), FORI(17, printf(" %d", s.a[i])))
DEF1(s24, (s.a = k * 0.1, s.b = -k, s.c = k * k), printf(" %.17g %ld %d", s.a, s.b, s.c))
DEF1(s24d, FORI(3, s.a[i] = k * (i + 0.5)), FORI(3, printf(" %g", s.a[i])))
DEF1(s32, FORI(2, (s.a[i] = k + i, s.b[i] = k - i * 0.5)), FORI(2, printf(" %ld %g", s.a[i], s.b[i])))
DEF1(s40, FORI(10, s.a[i] = k * i * 1000), FORI(10, printf(" %d", s.a[i])))
DEF1(nest, (s.x = mk_s8(k), s.y = mk_s3(k + 1), s.z = mk_s16dd(k + 2)), printf(" %d %g %d %d %d %g %.17g", s.x.a, s.x.b, s.y.a[0], s.y.a[1], s.y.a[2], s.z.a, s.z.b))
/* many arguments so that some structs travel on the stack */
static double many(struct s16 a, struct s16dd b, struct s8 c, struct s16m d, struct s12 e, struct s24 f, struct s16f g, struct s4f h, int i, double j, struct s8ff k)
{
	return a.a + a.b + b.a + b.b + c.a + c.b + d.a + d.b + d.c + e.a + e.b + e.c + f.a + f.b + f.c + g.a[0] + g.a[3] + h.a + i + j + k.a + k.b;
}
int main(void)
{
	int k;
	for (k = -2; k < 5; k++) {
		test_s1(k); test_s2(k); test_s3(k); test_s4(k); test_s4f(k); test_s7(k); test_s8(k); test_s8d(k); test_s8ff(k); test_s9(k); test_s12(k);
		test_s12f(k); test_s16(k); test_s16dd(k); test_s16m(k); test_s16f(k); test_s17(k); test_s24(k); test_s24d(k); test_s32(k); test_s40(k); test_nest(k);
		printf("many %.17g\n", many(mk_s16(k), mk_s16dd(k), mk_s8(k), mk_s16m(k), mk_s12(k), mk_s24(k), mk_s16f(k), mk_s4f(k), k, k * 0.5, mk_s8ff(k)));
	}
	{
		struct s40 x = mk_s40(3), y = {{1, 2, 3}}, z;
		struct s40 *px = &x;
		z = k > 100 ? x : y;
		printf("cond %d %d %d\n", z.a[1], (k > 0 ? x : y).a[2], id_s40(*px).a[9]);
		printf("member of rvalue %g %d\n", mk_s16m(9).c, mk_nest(4).y.a[2]);
		z = y = x;
		printf("chain %d %d\n", z.a[5], y.a[6]);
	}
	return 0;
}
