/* every operator on unsigned int (wrap-around semantics) */
int printf(const char *, ...);
static const unsigned v[] = {0, 1, 2, 3, 7, 100, 255, 256, 65535, 65536, 0x7fffffff, 0x80000000, 0x80000001, 0xfffffffe, 0xffffffff, 0xaaaaaaaa, 0x12345678};
#define N (int)(sizeof v / sizeof v[0])
int main(void)
{
	unsigned h = 0;
	int i, j;
	for (i = 0; i < N; i++) {
		unsigned a = v[i];
		printf("a=%u ~%u !%d -%u\n", a, ~a, !a, -a);
		for (j = 0; j < N; j++) {
			unsigned b = v[j];
			printf("%u,%u: add=%u sub=%u mul=%u", a, b, a + b, a - b, a * b);
			if (b) printf(" div=%u rem=%u", a / b, a % b);
			printf(" and=%u or=%u xor=%u", a & b, a | b, a ^ b);
			printf(" lt=%d le=%d gt=%d ge=%d eq=%d ne=%d", a < b, a <= b, a > b, a >= b, a == b, a != b);
			if (b < 32) printf(" shl=%u shr=%u", a << b, a >> b);
			printf("\n");
			h = h * 33 + (a + b) * (a ^ b);
		}
	}
	for (i = 0; i < 32; i++)
		printf("%d: %u %u\n", i, 0xdeadbeefu << i, 0xdeadbeefu >> i);
	printf("h=%u\n", h);
	return h % 100;
}
