/* initialised global data with address constants: &x, &a[2], function addresses, "str"+1, nested aggregates */
int printf(const char *, ...);
static int x = 5, arr[6] = {10, 20, 30, 40, 50, 60};
static int *px = &x, *pa2 = &arr[2], *pend = arr + 6, *pm1 = &arr[5] - 2;
static int **ppx = &px;
static const char *s1 = "string" + 1, *s2 = &"another"[3];
static char sarr[] = "array", *ps = sarr + 2, *ps0 = &sarr[0];
static int f1(int a) { return a + 1; }
static int f2(int a) { return a * 2; }
static int (*fp)(int) = f1, (*fpa[])(int) = {f2, &f1, f2};
struct inner { short a; const char *name; };
struct outer { int id; struct inner in; int *ptr; int (*fn)(int); double d; struct inner arr[2]; };
static struct outer o1 = {1, {2, "inner"}, &arr[1], f2, 1.5, {{3, "a0"}, {4, "a1"}}};
static struct outer o2 = {.ptr = &o1.id, .in.name = "designated" + 2, .arr[1] = {9, "last"}, .d = -0.0};
static struct outer *po = &o2, *parr[] = {&o1, &o2, 0};
static const char **pname = &o1.arr[1].name;
static short *pshort = &o1.arr[0].a;
static long asint = sizeof arr - sizeof arr[0];
static unsigned long sz = sizeof(struct outer);
extern int later[4];
static int *pl = &later[2];
int later[4] = {7, 8, 9, 10};
struct list { int v; struct list *next; };
static struct list l3 = {3, 0}, l2 = {2, &l3}, l1 = {1, &l2};
static struct list ring[3] = {{0, &ring[1]}, {1, &ring[2]}, {2, &ring[0]}};
static float ftab[] = {1.5f, -2.25f, 1e-3f};
static double dtab[] = {3.141592653589793, -1e300, 5e-324};
static unsigned char bytes[] = {1, 255, 128};
static _Bool flags[] = {1, 0, 1};
static long long big = -0x123456789abcdefLL;
static union { int i; float f; } un = {0x3f800000};
static void *vp = &dtab[1];
int main(void)
{
	struct list *l;
	int i, n = 0;
	printf("%d %d %d %d %d\n", *px, *pa2, pend[-1], *pm1, **ppx);
	printf("%s %s %s %s %c\n", s1, s2, sarr, ps, *ps0);
	printf("%d %d %d %d\n", fp(1), fpa[0](2), fpa[1](3), fpa[2](4));
	printf("%d %d %s %d %d %g %d %s %d %s\n", o1.id, o1.in.a, o1.in.name, *o1.ptr, o1.fn(21), o1.d, o1.arr[0].a, o1.arr[0].name, o1.arr[1].a, o1.arr[1].name);
	printf("%d %d %s %d %d %d %s %g %d\n", o2.id, o2.in.a, o2.in.name, *o2.ptr, o2.fn == 0, o2.arr[1].a, o2.arr[1].name, o2.d, o2.arr[0].name == 0);
	printf("%d %d %d %s %d %ld %lu %d\n", po == parr[1], parr[0]->id, parr[2] == 0, *pname, *pshort, asint, sz, *pl);
	for (l = &l1; l; l = l->next) printf("%d ", l->v);
	for (l = ring, i = 0; i < 7; i++, l = l->next) n = n * 3 + l->v;
	printf("%d\n", n);
	printf("%g %g %g %.17g %g %g\n", ftab[0], ftab[1], ftab[2], dtab[0], dtab[1], dtab[2]);
	printf("%d %d %d %d %d %d %lld %g %g\n", bytes[0], bytes[1], bytes[2], flags[0], flags[1], flags[2], big, un.f, *(double *)vp);
	return *pa2;
}
