/* bit-fields: signed/unsigned, widths 1..32 and long, straddling storage units, in structs passed by value */
int printf(const char *, ...);
struct A { unsigned a : 1; unsigned b : 3; int c : 4; unsigned d : 8; int e : 16; };
struct B { unsigned long x : 40; long y : 24; unsigned z : 7; int w : 25; };
struct C { char c; unsigned f : 5; unsigned g : 11; short s; int h : 30; unsigned i : 2; };
struct D { unsigned a : 31; unsigned : 0; unsigned b : 1; signed char c : 3; unsigned char d : 5; _Bool e : 1; };
static struct A mka(int k) { struct A a; a.a = k; a.b = k >> 1; a.c = k >> 2; a.d = k * 3; a.e = k * 1001; return a; }
static long suma(struct A a) { return a.a + a.b * 10 + a.c * 100 + a.d * 1000 + (long)a.e * 100000; }
static void showb(struct B b) { printf("B %lu %ld %u %d\n", (unsigned long)b.x, (long)b.y, b.z, b.w); }
int main(void)
{
	struct A a = {1, 5, -3, 200, -12345};
	struct B b = {0xabcdef1234ul, -8388608, 127, -16777216};
	struct C c = {'x', 31, 2047, -2, -536870912, 3};
	struct D d = {0x7fffffff, 1, -4, 31, 1};
	int i;
	unsigned long h = 0;
	printf("sizes %d %d %d %d\n", (int)sizeof(struct A), (int)sizeof(struct B), (int)sizeof(struct C), (int)sizeof(struct D));
	printf("A %d %d %d %d %d\n", a.a, a.b, a.c, a.d, a.e);
	showb(b);
	printf("C %c %u %u %d %d %u\n", c.c, c.f, c.g, c.s, c.h, c.i);
	printf("D %u %u %d %d %d\n", d.a, d.b, d.c, d.d, d.e);
	for (i = -20; i < 40; i++) {
		struct A x = mka(i);
		printf("%d: %d %d %d %d %d sum=%ld\n", i, x.a, x.b, x.c, x.d, x.e, suma(x));
		x.b += 3; x.c -= 5; x.d++; --x.e; x.a ^= 1;
		x.c *= 2; x.d >>= 2; x.e |= 0x55; x.b &= 6;
		printf("   %d %d %d %d %d\n", x.a, x.b, x.c, x.d, x.e);
		b.x += 0x1000000001ul * (unsigned long)(i + 20); b.y -= i * 1000; b.z = b.z * 5 + 1; b.w ^= i * 8;
		showb(b);
		c.f = i; c.g = i * 37; c.h = i * 7654321; c.i = i; c.s = (short)(i * 999);
		printf("C %c %u %u %d %d %u\n", c.c, c.f, c.g, c.s, c.h, c.i);
		d.a = (unsigned)i * 0x01010101u; d.b = i & 1; d.c = i; d.d = i; d.e = i;
		printf("D %u %u %d %d %d %d\n", d.a, d.b, d.c, d.d, d.e, d.a < 5);
		h = h * 3 + (unsigned long)(suma(x) + (long)b.x + b.y + c.h + d.c);
	}
	{
		/* bit-field value as expression operand: promotions */
		struct A y = {1, 7, -8, 255, -32768};
		printf("promo %d %d %d %ld\n", y.b - 8, y.d + 1 > 255, -y.a, (long)(y.e * 2));
		printf("assign value %d %d\n", (y.b = 9), (y.c = 9));
	}
	printf("h=%lu\n", h);
	return (int)(h % 61);
}
