/* float arithmetic and comparisons, including NaN, infinities, signed zero, denormals */
int printf(const char *, ...);
static unsigned bits(float f) { union { float f; unsigned u; } x; x.f = f; return x.u; }
static unsigned cb(float f) { return f != f ? 0x7fc00000u : bits(f); }
static float frombits(unsigned u) { union { float f; unsigned u; } x; x.u = u; return x.f; }
int main(void)
{
	float v[20];
	int n = 0, i, j, cnt = 0;
	float zero = 0.0f;
	v[n++] = 0.0f; v[n++] = -zero; v[n++] = 1.0f; v[n++] = -1.0f; v[n++] = 0.5f; v[n++] = 1.5f; v[n++] = -2.25f;
	v[n++] = 3.14159274f; v[n++] = 1e10f; v[n++] = -1e-10f; v[n++] = 16777216.0f; v[n++] = 16777217.0f; v[n++] = 3.4028235e38f;
	v[n++] = 1.17549435e-38f; v[n++] = frombits(1); v[n++] = 1.0f / zero; v[n++] = -1.0f / zero; v[n++] = frombits(0x7fc00000u); v[n++] = 0.1f; v[n++] = 100.0f;
	for (i = 0; i < n; i++) {
		float a = v[i];
		printf("a=%08x neg=%08x !%d bool=%d\n", cb(a), cb(-a), !a, a ? 1 : 0);
		for (j = 0; j < n; j++) {
			float b = v[j];
			float s = a + b, d = a - b, m = a * b, q = a / b;
			/* NaN results: sign/payload may legitimately differ; print them canonically */
			printf("%08x,%08x: add=%08x sub=%08x mul=%08x div=%08x", cb(a), cb(b), cb(s), cb(d), cb(m), cb(q));
			printf(" lt=%d le=%d gt=%d ge=%d eq=%d ne=%d land=%d lor=%d\n", a < b, a <= b, a > b, a >= b, a == b, a != b, a && b, a || b);
			cnt += (a < b) + 2 * (a == b) + 3 * (a != b);
		}
	}
	{
		float acc = 0.0f, x = 1.0f;
		for (i = 0; i < 50; i++) { acc += x / (float)(i + 1); x *= -0.5f; }
		printf("series=%08x %.9g\n", bits(acc), acc);
		acc = 1.0f; acc += 1.0f; acc -= 0.25f; acc *= 3.0f; acc /= 7.0f;
		printf("compound=%08x\n", bits(acc));
		acc++; ++acc; acc--; 
		printf("incdec=%08x\n", bits(acc));
	}
	printf("cnt=%d\n", cnt);
	return cnt & 63;
}
