/* every arithmetic / bitwise / shift / compare operator on int */
int printf(const char *, ...);
static const int v[] = {0, 1, -1, 2, -2, 7, -7, 100, -100, 32767, -32768, 65536, 2147483647, -2147483647 - 1, 0x55555555, 0x12345678, -0x12345678};
#define N (int)(sizeof v / sizeof v[0])
static int ok_add(long a, long b) { long r = a + b; return r >= -2147483647L - 1 && r <= 2147483647L; }
static int ok_sub(long a, long b) { long r = a - b; return r >= -2147483647L - 1 && r <= 2147483647L; }
static int ok_mul(long a, long b) { long r = a * b; return r >= -2147483647L - 1 && r <= 2147483647L; }
int main(void)
{
	unsigned h = 0;
	int i, j;
	for (i = 0; i < N; i++) {
		int a = v[i];
		printf("a=%d ~%d !%d +%d", a, ~a, !a, +a);
		if (a != -2147483647 - 1)
			printf(" -%d", -a);
		printf("\n");
		for (j = 0; j < N; j++) {
			int b = v[j];
			printf("%d,%d:", a, b);
			if (ok_add(a, b)) printf(" add=%d", a + b);
			if (ok_sub(a, b)) printf(" sub=%d", a - b);
			if (ok_mul(a, b)) printf(" mul=%d", a * b);
			if (b != 0 && !(a == -2147483647 - 1 && b == -1)) printf(" div=%d rem=%d", a / b, a % b);
			printf(" and=%d or=%d xor=%d", a & b, a | b, a ^ b);
			printf(" lt=%d le=%d gt=%d ge=%d eq=%d ne=%d", a < b, a <= b, a > b, a >= b, a == b, a != b);
			printf(" land=%d lor=%d", a && b, a || b);
			if (b >= 0 && b < 32) {
				printf(" sar=%d", a >> b);
				if (a >= 0 && ((long)a << b) <= 2147483647L) printf(" shl=%d", a << b);
			}
			printf("\n");
			h = h * 31 + (unsigned)(a ^ b);
		}
	}
	for (i = 0; i < 32; i++)
		printf("1<<%d=%u  -8>>%d=%d\n", i, 1u << i, i, -8 >> i);
	printf("h=%u\n", h);
	return h & 0x7f;
}
