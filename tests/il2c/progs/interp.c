/* a small stack VM: big switch, unions, 64-bit arithmetic, tables of structs */
int printf(const char *, ...);
enum op { PUSH, ADD, SUB, MUL, DIV, MOD, NEG, DUP, SWAP, POP, JMP, JZ, JNZ, LT, EQ, LOAD, STORE, PRINT, CALL, RET, HALT, SHL, SHR, AND, OR, XOR, NOT, FPUSH, FADD, FMUL, FPRINT, I2F, F2I };
union val { long i; double f; };
struct insn { unsigned char op; long arg; };
static long run(const struct insn *code, int trace)
{
	union val st[64], mem[16];
	int rs[16], sp = 0, rp = 0, pc = 0, steps = 0;
	long a, b;
	for (;;) {
		const struct insn *in = &code[pc++];
		if (++steps > 100000) return -999;
		if (trace) printf("[%d:%d sp=%d]", pc - 1, in->op, sp);
		switch (in->op) {
		case PUSH: st[sp++].i = in->arg; break;
		case ADD: b = st[--sp].i; st[sp - 1].i = (long)((unsigned long)st[sp - 1].i + (unsigned long)b); break;
		case SUB: b = st[--sp].i; st[sp - 1].i = (long)((unsigned long)st[sp - 1].i - (unsigned long)b); break;
		case MUL: b = st[--sp].i; st[sp - 1].i = (long)((unsigned long)st[sp - 1].i * (unsigned long)b); break;
		case DIV: b = st[--sp].i; st[sp - 1].i /= b; break;
		case MOD: b = st[--sp].i; st[sp - 1].i %= b; break;
		case NEG: st[sp - 1].i = -st[sp - 1].i; break;
		case DUP: st[sp] = st[sp - 1]; sp++; break;
		case SWAP: { union val t = st[sp - 1]; st[sp - 1] = st[sp - 2]; st[sp - 2] = t; break; }
		case POP: sp--; break;
		case JMP: pc = (int)in->arg; break;
		case JZ: if (st[--sp].i == 0) pc = (int)in->arg; break;
		case JNZ: if (st[--sp].i != 0) pc = (int)in->arg; break;
		case LT: b = st[--sp].i; a = st[sp - 1].i; st[sp - 1].i = a < b; break;
		case EQ: b = st[--sp].i; a = st[sp - 1].i; st[sp - 1].i = a == b; break;
		case LOAD: st[sp++] = mem[in->arg]; break;
		case STORE: mem[in->arg] = st[--sp]; break;
		case PRINT: printf("%ld\n", st[--sp].i); break;
		case CALL: rs[rp++] = pc; pc = (int)in->arg; break;
		case RET: pc = rs[--rp]; break;
		case HALT: return sp ? st[sp - 1].i : 0;
		case SHL: b = st[--sp].i; st[sp - 1].i = (long)((unsigned long)st[sp - 1].i << (b & 63)); break;
		case SHR: b = st[--sp].i; st[sp - 1].i = (long)((unsigned long)st[sp - 1].i >> (b & 63)); break;
		case AND: b = st[--sp].i; st[sp - 1].i &= b; break;
		case OR: b = st[--sp].i; st[sp - 1].i |= b; break;
		case XOR: b = st[--sp].i; st[sp - 1].i ^= b; break;
		case NOT: st[sp - 1].i = ~st[sp - 1].i; break;
		case FPUSH: st[sp++].f = (double)in->arg / 1000.0; break;
		case FADD: sp--; st[sp - 1].f += st[sp].f; break;
		case FMUL: sp--; st[sp - 1].f *= st[sp].f; break;
		case FPRINT: printf("%.10g\n", st[--sp].f); break;
		case I2F: st[sp - 1].f = (double)st[sp - 1].i; break;
		case F2I: st[sp - 1].i = (long)st[sp - 1].f; break;
		default: return -1;
		}
	}
}
/* factorial of 20 by loop; then gcd by subroutine; then xorshift; then float polynomial */
static const struct insn prog[] = {
	{PUSH, 1}, {STORE, 0}, {PUSH, 20}, {STORE, 1},
	/* 4 */ {LOAD, 1}, {JZ, 14}, {LOAD, 0}, {LOAD, 1}, {MUL, 0}, {STORE, 0}, {LOAD, 1}, {PUSH, 1}, {SUB, 0}, {STORE, 1},
	/* 14 */ {LOAD, 1}, {JNZ, 4}, {LOAD, 0}, {PRINT, 0},
	/* 18 */ {PUSH, 1071}, {STORE, 2}, {PUSH, 462}, {STORE, 3}, {CALL, 40}, {LOAD, 2}, {PRINT, 0},
	/* 25 */ {PUSH, 88172645463325252L}, {DUP, 0}, {PUSH, 13}, {SHL, 0}, {XOR, 0}, {DUP, 0}, {PUSH, 7}, {SHR, 0}, {XOR, 0}, {DUP, 0}, {PUSH, 17}, {SHL, 0}, {XOR, 0}, {PRINT, 0}, {HALT, 0},
	/* 40 */ {JMP, 52},
	/* 41: unreachable padding */ {HALT, 0}, {HALT, 0}, {HALT, 0}, {HALT, 0}, {HALT, 0}, {HALT, 0}, {HALT, 0}, {HALT, 0}, {HALT, 0}, {HALT, 0}, {HALT, 0},
	/* 52: gcd(mem2, mem3) */ {LOAD, 3}, {JZ, 62}, {LOAD, 2}, {LOAD, 3}, {MOD, 0}, {LOAD, 3}, {STORE, 2}, {STORE, 3}, {JMP, 52}, {HALT, 0},
	/* 62 */ {RET, 0},
};
static const struct insn prog2[] = {
	{FPUSH, 1500}, {FPUSH, 2250}, {FMUL, 0}, {FPUSH, -125}, {FADD, 0}, {DUP, 0}, {FPRINT, 0}, {F2I, 0}, {DUP, 0}, {PRINT, 0}, {I2F, 0}, {FPUSH, 500}, {FADD, 0}, {FPRINT, 0},
	{PUSH, -17}, {PUSH, 5}, {DIV, 0}, {PRINT, 0}, {PUSH, -17}, {PUSH, 5}, {MOD, 0}, {PRINT, 0}, {PUSH, 5}, {NEG, 0}, {NOT, 0}, {PUSH, 3}, {SWAP, 0}, {LT, 0}, {PRINT, 0},
	{PUSH, 42}, {HALT, 0},
};
int main(void)
{
	/* the CALL at 22 jumps to 40, which jumps to 52 (the gcd routine) and returns to 23 */
	long r = run(prog, 0);
	printf("r=%ld\n", r);
	r = run(prog2, 1);
	printf("\nr=%ld\n", r);
	return (int)r;
}
