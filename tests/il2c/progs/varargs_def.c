/* variadic functions defined by cproc: ints, doubles, longs, pointers, mixed, many arguments, va_copy, va_list passed on */
int printf(const char *, ...);
int vsnprintf(char *, unsigned long, const char *, __builtin_va_list);
int vprintf(const char *, __builtin_va_list);
typedef __builtin_va_list va_list;
#define va_start(ap, p) __builtin_va_start(ap, p)
#define va_arg(ap, t) __builtin_va_arg(ap, t)
#define va_end(ap) __builtin_va_end(ap)
#define va_copy(d, s) __builtin_va_copy(d, s)
static long isum(int n, ...) { va_list ap; long s = 0; va_start(ap, n); while (n-- > 0) s += va_arg(ap, int); va_end(ap); return s; }
static double dsum(int n, ...) { va_list ap; double s = 0; va_start(ap, n); while (n-- > 0) s += va_arg(ap, double); va_end(ap); return s; }
static long lsum(const char *end, long first, ...) { va_list ap; long s = first, v; (void)end; va_start(ap, first); while ((v = va_arg(ap, long)) != 0) s = s * 10 + v; va_end(ap); return s; }
/* format-driven: i int, l long, d double, s string, u unsigned, c char (as int), p int* */
static double mixed(const char *fmt, ...)
{
	va_list ap;
	double s = 0;
	va_start(ap, fmt);
	for (; *fmt; fmt++) {
		switch (*fmt) {
		case 'i': s += va_arg(ap, int); break;
		case 'l': s += (double)va_arg(ap, long); break;
		case 'd': s += va_arg(ap, double); break;
		case 'u': s += va_arg(ap, unsigned); break;
		case 'c': s += (char)va_arg(ap, int); break;
		case 's': { const char *p = va_arg(ap, const char *); while (*p) s += *p++; break; }
		case 'p': s += *va_arg(ap, int *); break;
		}
		s *= 1.0625;
	}
	va_end(ap);
	return s;
}
static int fmt(char *buf, unsigned long n, const char *f, ...) { va_list ap; int r; va_start(ap, f); r = vsnprintf(buf, n, f, ap); va_end(ap); return r; }
static int vsum(int n, va_list ap) { int s = 0; while (n-- > 0) s += va_arg(ap, int); return s; }
static int twice(int n, ...) { va_list ap, aq; int a, b; va_start(ap, n); va_copy(aq, ap); a = vsum(n, ap); b = vsum(n - 1, aq); va_end(aq); va_end(ap); return a * 1000 + b; }
static int log_(const char *f, ...) { va_list ap; int r; va_start(ap, f); printf("[log] "); r = vprintf(f, ap); va_end(ap); return r; }
struct pt { double x; int k; };
static double after_struct(struct pt p, int n, ...) { va_list ap; double s = p.x + p.k; va_start(ap, n); while (n-- > 0) s += va_arg(ap, double) * va_arg(ap, int); va_end(ap); return s; }
int main(void)
{
	char buf[128];
	int seven = 7, r;
	struct pt p = {0.5, 3};
	printf("%ld %ld %ld\n", isum(0), isum(3, 1, 2, 3), isum(12, 1, -2, 3, -4, 5, -6, 7, -8, 9, -10, 11, 2147483647));
	printf("%g %g %g\n", dsum(0), dsum(2, 1.5, 2.25), dsum(12, 1.0, 2.0, 3.0, 4.0, 5.0, 6.0, 7.0, 8.0, 9.0, 10.0, 0.5, 0.25));
	printf("%ld %ld\n", lsum("e", 1, 0L), lsum("e", 1, 2L, 3L, 4L, 5L, 6L, 7L, 8L, 9L, 0L));
	printf("%.10g\n", mixed("ildusc", 1, 2L, 3.5, 4000000000u, "ab", 'x'));
	printf("%.10g\n", mixed("dididididididi", 1.0, 2, 3.0, 4, 5.0, 6, 7.0, 8, 9.0, 10, 11.0, 12, 13.0, 14));
	printf("%.10g\n", mixed("lllllllldddddddddp", 1L, 2L, 3L, 4L, 5L, 6L, 7L, 1L << 40, .1, .2, .3, .4, .5, .6, .7, .8, .9, &seven));
	r = fmt(buf, sizeof buf, "%d|%s|%5.2f|%ld|%c|%x", -42, "str", 3.14159, 123456789012L, 'q', 255u);
	printf("%d %s\n", r, buf);
	r = fmt(buf, 8, "%s", "truncated output");
	printf("%d %s\n", r, buf);
	printf("%d %d\n", twice(3, 1, 2, 3), twice(8, 1, 2, 3, 4, 5, 6, 7, 8));
	r = log_("%s %d %g %lu\n", "vprintf", 1, 2.5, 18446744073709551615ul);
	printf("%d %g\n", r, after_struct(p, 3, 1.5, 2, 2.5, 4, -1.0, 6));
	return r;
}
