/* compound assignment, ++/--, ?:, comma, short-circuit evaluation, sizeof/_Alignof, casts, _Generic, compound literals, enums */
int printf(const char *, ...);
static int calls;
static int t(int v) { calls++; return v; }
enum e { A, B = 10, C, D = -5, E, F = B + C };
struct pt { int x, y; };
static int sump(const struct pt *p) { return p->x + p->y; }
static int suma(const int *a, int n) { int s = 0; while (n--) s += a[n]; return s; }
#define TYPEID(x) _Generic((x), char: 1, signed char: 2, unsigned char: 3, short: 4, unsigned short: 5, int: 6, unsigned: 7, long: 8, unsigned long: 9, long long: 10, unsigned long long: 11, float: 12, double: 13, char *: 14, const char *: 15, int *: 16, default: 0)
int main(void)
{
	int a = 10, b = 3, c, i, arr[5] = {1, 2, 3, 4, 5}, *p = arr;
	unsigned u = 7;
	long l = 100;
	double d = 2.5;
	char ch = 'a'; short sh = 1; unsigned char uc = 1; unsigned short us = 1; float fl = 1; long long ll = 1; unsigned long ul = 1; unsigned long long ull = 1;
	a += b; printf("%d ", a); a -= b * 2; printf("%d ", a); a *= b; printf("%d ", a); a /= 2; printf("%d ", a); a %= 4; printf("%d ", a);
	a <<= 5; printf("%d ", a); a >>= 2; printf("%d ", a); a &= 0x1c; printf("%d ", a); a |= 0x41; printf("%d ", a); a ^= 0xff; printf("%d\n", a);
	u -= 10; printf("%u ", u); u >>= 28; printf("%u ", u); l *= l; l -= 1; printf("%ld ", l); d *= d; d -= 0.25; d /= 3; printf("%g ", d);
	l += d; printf("%ld ", l); u *= 2.5; printf("%u ", u); d += a; printf("%g\n", d);
	c = a++ + 1; printf("%d %d ", a, c); c = ++a + 1; printf("%d %d ", a, c); c = a-- - 1; printf("%d %d ", a, c); c = --a; printf("%d %d\n", a, c);
	c = *p++; printf("%d %d ", c, *p); c = *++p; printf("%d ", c); c = (*p)++; printf("%d %d ", c, arr[2]); c = ++*p; printf("%d ", c); p--; c = p[1]--; printf("%d %d\n", c, arr[2]);
	d = 1.5; d++; printf("%g ", d); --d; d--; printf("%g ", d); ch++; ch += 2; printf("%c ", ch); uc = 255; uc++; printf("%d ", uc); sh = 32767; sh++; printf("%d\n", sh);
	calls = 0; c = t(0) && t(1); printf("%d %d ", c, calls); c = t(1) && t(2); printf("%d %d ", c, calls); c = t(1) || t(1); printf("%d %d ", c, calls); c = t(0) || t(0) || t(5); printf("%d %d\n", c, calls);
	calls = 0; c = t(1) ? t(2) : t(3); printf("%d %d ", c, calls); c = t(0) ? t(2) : t(3); printf("%d %d ", c, calls); c = (t(1), t(2), t(7)); printf("%d %d\n", c, calls);
	printf("%g %ld %u %d\n", 1 ? 1 : 2.5, 0 ? 1 : 2L, 1 ? -1 : 2u, (a > 0 ? a : -a) + (b < 0 ? -b : b));
	for (i = 0, c = 0; i < 5; i++, c += i) ;
	printf("%d %d\n", i, c);
	printf("%d %d %d %d %d %d\n", A, B, C, D, E, F);
	printf("%d %d %d %d %d %d %d %d\n", (int)sizeof(char), (int)sizeof(short), (int)sizeof(int), (int)sizeof(long), (int)sizeof(float), (int)sizeof(double), (int)sizeof(void *), (int)sizeof(struct pt));
	printf("%d %d %d %d %d %d\n", (int)_Alignof(char), (int)_Alignof(short), (int)_Alignof(long), (int)_Alignof(double), (int)_Alignof(struct pt), (int)sizeof arr);
	printf("%d %d %d %d %d\n", (int)sizeof(a + l), (int)sizeof(ch + ch), (int)sizeof(fl + d), (int)sizeof 'a', (int)sizeof(a++));
	printf("%d %d %d %d %d %d %d %d %d %d %d %d %d %d %d\n", TYPEID(ch), TYPEID(sh), TYPEID(uc), TYPEID(us), TYPEID(a), TYPEID(u), TYPEID(l), TYPEID(ul), TYPEID(ll), TYPEID(ull), TYPEID(fl), TYPEID(d), TYPEID("s"), TYPEID(p), TYPEID(&d));
	printf("%d %d %d %d %d %d %d\n", TYPEID(ch + ch), TYPEID(sh + us), TYPEID(a + u), TYPEID(u + l), TYPEID(l + ul), TYPEID(fl + a), TYPEID(fl + d));
	printf("%d %d %d\n", sump(&(struct pt){3, 4}), suma((int[]){1, 2, 3, 4}, 4), ((struct pt){.y = 9}).y);
	printf("%d %u %d %ld %g %d\n", (int)3.99, (unsigned)-1, (char)0x141, (long)(int)0x80000000u, (double)(float)0.1, (int)(unsigned char)-56);
	printf("%d %d %d %d\n", -7 / 2, -7 % 2, 7 / -2, 7 % -2);
	printf("%d %d %d %d\n", !5, !!5, !0.0, ~0 == -1);
	return a & 0x7f;
}
