/* conversions between all integer types, negative values, values > 2^31 and > 2^63, _Bool */
int printf(const char *, ...);
static const long long v[] = {0, 1, -1, 127, 128, -128, -129, 255, 256, 32767, 32768, -32768, -32769, 65535, 65536,
	2147483647LL, 2147483648LL, -2147483648LL, -2147483649LL, 4294967295LL, 4294967296LL, 4294967297LL, -4294967296LL,
	0x123456789abcdef0LL, -0x123456789abcdef0LL, 9223372036854775807LL, -9223372036854775807LL - 1, 0x80, 0x8000, 0xff80, 0xffff8000LL};
#define N (int)(sizeof v / sizeof v[0])
static signed char f_sc(long long x) { return (signed char)x; }
static unsigned char f_uc(long long x) { return (unsigned char)x; }
static short f_s(long long x) { return (short)x; }
static unsigned short f_us(long long x) { return (unsigned short)x; }
static int f_i(long long x) { return (int)x; }
static unsigned f_u(long long x) { return (unsigned)x; }
static long f_l(long long x) { return (long)x; }
static unsigned long f_ul(long long x) { return (unsigned long)x; }
static _Bool f_b(long long x) { return (_Bool)x; }
/* implicit conversions at call boundaries: narrow parameter types */
static long take_sc(signed char a, unsigned char b, short c, unsigned short d, int e, unsigned f) { return a + b + c + d + (long)e + f; }
int main(void)
{
	int i;
	unsigned long h = 0;
	for (i = 0; i < N; i++) {
		long long x = v[i];
		unsigned long long ux = (unsigned long long)x;
		signed char sc = f_sc(x); unsigned char uc = f_uc(x); short s = f_s(x); unsigned short us = f_us(x);
		int in = f_i(x); unsigned u = f_u(x); long l = f_l(x); unsigned long ul = f_ul(x); _Bool b = f_b(x);
		printf("%lld: sc=%d uc=%d s=%d us=%d i=%d u=%u l=%ld ul=%lu b=%d\n", x, sc, uc, s, us, in, u, l, ul, b);
		/* widen each narrow value to every wider type, signed and unsigned */
		printf("  sc-> s=%d us=%d i=%d u=%u l=%ld ul=%lu\n", (short)sc, (unsigned short)sc, (int)sc, (unsigned)sc, (long)sc, (unsigned long)sc);
		printf("  uc-> s=%d us=%d i=%d u=%u l=%ld ul=%lu\n", (short)uc, (unsigned short)uc, (int)uc, (unsigned)uc, (long)uc, (unsigned long)uc);
		printf("  s -> i=%d u=%u l=%ld ul=%lu sc=%d uc=%d\n", (int)s, (unsigned)s, (long)s, (unsigned long)s, (signed char)s, (unsigned char)s);
		printf("  us-> i=%d u=%u l=%ld ul=%lu sc=%d uc=%d\n", (int)us, (unsigned)us, (long)us, (unsigned long)us, (signed char)us, (unsigned char)us);
		printf("  i -> l=%ld ul=%lu s=%d us=%d u=%u\n", (long)in, (unsigned long)in, (short)in, (unsigned short)in, (unsigned)in);
		printf("  u -> l=%ld ul=%lu s=%d us=%d i=%d\n", (long)u, (unsigned long)u, (short)u, (unsigned short)u, (int)u);
		printf("  ul-> i=%d u=%u ll=%lld b=%d ux=%llu\n", (int)ul, (unsigned)ul, (long long)ul, (_Bool)ul, ux);
		printf("  mixed: %ld %lu %d %d\n", in + l, u + ul, sc < uc, in < (long)u);
		printf("  usual: i<u=%d l<u=%d i+u=%u l+u=%ld -1<1u=%d -1l<1u=%d\n", in < u, l < u, in + u, l + u, -1 < 1u, -1l < 1u);
		printf("  call: %ld\n", take_sc(x, x, x, x, x, x));
		h = h * 131 + (unsigned long)sc + uc + (unsigned long)s + us + (unsigned long)in + u + ul + b;
	}
	{
		_Bool b1 = 2, b2 = 0.5, b3 = 0, b4 = -1;
		int z = 256;
		_Bool b5 = z;
		char c = 300 - 256 + 200;
		printf("bools %d %d %d %d %d c=%d\n", b1, b2, b3, b4, b5, c);
	}
	printf("h=%lu\n", h);
	return (int)(h % 113);
}
