/* every operator on unsigned long / unsigned long long */
int printf(const char *, ...);
static const unsigned long v[] = {0, 1, 2, 3, 10, 255, 65536, 0x7fffffff, 0x80000000ul, 0xfffffffful, 0x100000000ul, 0x7ffffffffffffffful,
	0x8000000000000000ul, 0x8000000000000001ul, 0xfffffffffffffffeul, 0xfffffffffffffffful, 0xaaaaaaaaaaaaaaaaul, 0x123456789abcdef0ul};
#define N (int)(sizeof v / sizeof v[0])
int main(void)
{
	unsigned long h = 0;
	int i, j;
	for (i = 0; i < N; i++) {
		unsigned long a = v[i];
		unsigned long long ull = a;
		printf("a=%lu ~%lu !%d -%lu ull=%llu\n", a, ~a, !a, -a, ull);
		for (j = 0; j < N; j++) {
			unsigned long b = v[j];
			printf("%lu,%lu: add=%lu sub=%lu mul=%lu", a, b, a + b, a - b, a * b);
			if (b) printf(" div=%lu rem=%lu", a / b, a % b);
			printf(" and=%lu or=%lu xor=%lu", a & b, a | b, a ^ b);
			printf(" lt=%d le=%d gt=%d ge=%d eq=%d ne=%d", a < b, a <= b, a > b, a >= b, a == b, a != b);
			if (b < 64) printf(" shl=%lu shr=%lu", a << b, a >> b);
			printf("\n");
			h = h * 1000003 + (a + b) * (a ^ b);
		}
	}
	for (i = 0; i < 64; i++)
		printf("%d: %lx %lx\n", i, 0xdeadbeefcafef00dul << i, 0xdeadbeefcafef00dul >> i);
	printf("h=%lu\n", h);
	return (int)(h % 101);
}
