/* __builtin_alloca: in loops (every block stays alive until the function returns), mixed with VLAs and calls */
int printf(const char *, ...);
struct node { int v; struct node *next; };
static int list(int n)
{
	struct node *head = 0, *p;
	int i, s = 0;
	for (i = 0; i < n; i++) { p = __builtin_alloca(sizeof *p); p->v = i * i; p->next = head; head = p; }
	for (p = head; p; p = p->next) s = s * 3 + p->v;
	return s;
}
static int strings(int n)
{
	char *ptr[16];
	int i, j, s = 0;
	for (i = 0; i < n && i < 16; i++) { ptr[i] = __builtin_alloca(i + 1); for (j = 0; j <= i; j++) ptr[i][j] = (char)('a' + i); }
	for (i = 0; i < n && i < 16; i++) for (j = 0; j <= i; j++) s += ptr[i][j] - 'a' == i;
	return s;
}
static long mixed(int n)
{
	long *a = __builtin_alloca(n * sizeof *a), s = 0;
	int i;
	for (i = 0; i < n; i++) {
		int v[i + 1];
		long *b = __builtin_alloca(8);
		v[i] = i; *b = v[i] * 2; a[i] = *b + list(3);
	}
	for (i = 0; i < n; i++) s += a[i];
	return s;
}
static unsigned long align(void) { void *p = __builtin_alloca(1), *q = __builtin_alloca(17); return ((unsigned long)p | (unsigned long)q) & 15; }
int main(void)
{
	int r = list(10);
	printf("%d %d %d\n", r, list(0), list(1));
	printf("%d %d\n", strings(16), strings(3));
	printf("%ld %ld %lu\n", mixed(10), mixed(1), align());
	return r & 0x7f;
}
