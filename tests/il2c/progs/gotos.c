/* goto: forward, backward, into and out of blocks, state machine, labels followed by declarations */
int printf(const char *, ...);
static int fsm(const char *s)
{
	int n = 0, words = 0;
start:
	if (!*s) goto done;
	if (*s == ' ') { s++; goto start; }
	words++;
inword:
	n++;
	s++;
	if (*s && *s != ' ') goto inword;
	goto start;
done:
	return words * 100 + n;
}
static int retry(int x)
{
	int tries = 0;
again:
	tries++;
	if (x % 7 != 0) { x += tries; if (tries < 20) goto again; goto fail; }
	return x * 100 + tries;
fail:
	return -1;
}
static int into(int sel)
{
	int r = 0, i = 0;
	if (sel) goto middle;
	for (i = 0; i < 5; i++) {
		r += 10;
middle:
		r += i;
		if (r > 30) goto out;
	}
out:
	return r;
}
static int cleanup(int n)
{
	int r = 0;
	if (n < 1) goto e0;
	r += 1;
	if (n < 2) goto e1;
	r += 10;
	if (n < 3) goto e2;
	r += 100;
	r += 5000;
e2:	r += 1000;
e1:	r += 10000;
e0:	return r;
}
int main(void)
{
	int i;
	printf("%d %d %d\n", fsm("  hello big   world "), fsm(""), fsm("x"));
	for (i = 0; i < 10; i++) printf("%d ", retry(i));
	printf("\n%d %d\n", into(0), into(1));
	for (i = 0; i < 5; i++) printf("%d ", cleanup(i));
	printf("\n");
	i = 0;
loop:
	if (i < 3) { int sq = i * i; printf("sq %d\n", sq); i++; goto loop; }
	return i;
}
