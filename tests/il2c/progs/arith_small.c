/* char / signed char / unsigned char / short / unsigned short: promotions, truncating stores, compound assignment */
int printf(const char *, ...);
static const int v[] = {0, 1, -1, 127, 128, -128, -129, 255, 256, 32767, 32768, -32768, -32769, 65535, 65536, 0x12345, -0x12345, 100, 200, 77};
#define N (int)(sizeof v / sizeof v[0])
int main(void)
{
	int i, j; unsigned h = 0;
	for (i = 0; i < N; i++) {
		char c = (char)v[i]; signed char sc = (signed char)v[i]; unsigned char uc = (unsigned char)v[i];
		short s = (short)v[i]; unsigned short us = (unsigned short)v[i];
		printf("%d: c=%d sc=%d uc=%d s=%d us=%d | ~%d ~%d ~%d ~%d -%d -%d !%d\n", v[i], c, sc, uc, s, us, ~c, ~uc, ~s, ~us, -uc, -us, !uc);
		for (j = 0; j < N; j++) {
			char c2 = (char)v[j]; unsigned char uc2 = (unsigned char)v[j]; short s2 = (short)v[j]; unsigned short us2 = (unsigned short)v[j];
			char rc; unsigned char ruc; short rs; unsigned short rus;
			printf(" %d,%d: c+%d c*%d uc-%d uc*%d s+%d s*%d us-%d us*%d", v[i], v[j], c + c2, c * c2, uc - uc2, uc * uc2, s + s2, s * s2, us - us2, (int)((unsigned)us * us2));
			if (c2) printf(" c/%d c%%%d", c / c2, c % c2);
			if (uc2) printf(" uc/%d uc%%%d", uc / uc2, uc % uc2);
			if (s2) printf(" s/%d s%%%d", s / s2, s % s2);
			if (us2) printf(" us/%d us%%%d", us / us2, us % us2);
			printf(" lt=%d%d%d%d eq=%d%d", c < c2, uc < uc2, s < s2, us < us2, c == uc2, s == us2);
			rc = c; rc += c2; ruc = uc; ruc += uc2; rs = s; rs -= s2; rus = us; rus *= 3;
			printf(" +=%d %d %d %d", rc, ruc, rs, rus);
			rc = (char)(uc << 1); ruc = uc; ruc >>= (j & 7); rs = s; rs >>= (j & 15); rus = us; rus <<= (j & 7);
			printf(" sh=%d %d %d %d", rc, ruc, rs, rus);
			rc = c; rc &= c2; ruc = uc; ruc |= uc2; rs = s; rs ^= s2;
			printf(" bw=%d %d %d", rc, ruc, rs);
			rc = c; ruc = uc; rs = s; rus = us;
			printf(" ++%d %d %d %d", ++rc, ruc++, --rs, rus--);
			printf(" =>%d %d %d %d\n", rc, ruc, rs, rus);
			h = h * 7 + (unsigned)(rc + ruc + rs + rus);
		}
	}
	printf("h=%u\n", h & 0xffff);
	return h & 0x3f;
}
