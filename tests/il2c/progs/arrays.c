/* arrays: multi-dimensional, initialisers, sizeof, arrays in structs, array parameters */
int printf(const char *, ...);
static int g1[10] = {1, 2, 3};
static int g2[3][4] = {{1, 2, 3, 4}, {5, 6}, {[2] = 11, 12}};
static char g3[][6] = {"ab", "cdefg", ""};
static double g4[] = {[3] = 1.5, [1] = 2.5, 3.5};
static short g5[2][2][3] = {{{1, 2, 3}, {4, 5, 6}}, {{7, 8, 9}, {10, 11, 12}}};
struct m { int n; int a[5]; char s[8]; };
static struct m gm[2] = {{3, {1, 2, 3}, "abc"}, {.a = {[4] = 9}, .s = {'x', 'y'}}};
static int sum(const int *a, int n) { int s = 0, i; for (i = 0; i < n; i++) s += a[i]; return s; }
static int sum2(int a[][4], int rows) { int s = 0, i, j; for (i = 0; i < rows; i++) for (j = 0; j < 4; j++) s += a[i][j] * (i + 1); return s; }
static void fill(int (*a)[4], int rows) { int i, j; for (i = 0; i < rows; i++) for (j = 0; j < 4; j++) a[i][j] = i * 10 + j; }
int main(void)
{
	int l1[8] = {0}, l2[3][4], i, j, k;
	char s[] = "local string", t[4] = "abcd";
	long big[100];
	printf("%d %d %d %d %d %d\n", (int)sizeof g1, (int)sizeof g2, (int)sizeof g3, (int)sizeof g4, (int)sizeof g5, (int)sizeof gm);
	printf("%d %d\n", sum(g1, 10), sum2(g2, 3));
	for (i = 0; i < 3; i++) printf("[%s] ", g3[i]);
	for (i = 0; i < 4; i++) printf("%g ", g4[i]);
	printf("\n");
	for (i = 0; i < 2; i++) for (j = 0; j < 2; j++) for (k = 0; k < 3; k++) printf("%d ", g5[i][j][k]);
	printf("\n%d %d %s %d %d %c%c %d\n", gm[0].n, gm[0].a[2], gm[0].s, gm[1].n, gm[1].a[4], gm[1].s[0], gm[1].s[1], gm[1].s[2]);
	fill(l2, 3);
	printf("%d %d %d %d\n", l2[2][3], sum2(l2, 3), *(*(l2 + 1) + 2), (int)(sizeof l2 / sizeof l2[0]));
	for (i = 0; i < 8; i++) l1[i] = l1[(i + 7) % 8] + i * i;
	printf("%d %d %s %d %c%c\n", l1[7], sum(l1, 8), s, (int)sizeof s, t[0], t[3]);
	for (i = 0; i < 100; i++) big[i] = (long)i * i * i;
	for (i = 99; i > 0; i--) big[i] -= big[i - 1];
	printf("%ld %ld %ld\n", big[1], big[50], big[99]);
	{
		int *p = &l1[3], (*q)[4] = &l2[1];
		printf("%d %d %d %d %d\n", p[-1], p[2], (*q)[1], q[1][0], 2[l1]);
		int m[2][3] = {1, 2, 3, 4, 5, 6};
		int c[] = {[5] = 1};
		printf("%d %d %d\n", m[1][0], m[0][2], (int)(sizeof c / sizeof *c));
	}
	return sum(g1, 3);
}
