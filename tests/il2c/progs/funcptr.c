/* function pointers: tables, arguments, results, in structs, comparisons, calls through casts, libc callbacks */
int printf(const char *, ...);
void qsort(void *, unsigned long, unsigned long, int (*)(const void *, const void *));
void *bsearch(const void *, const void *, unsigned long, unsigned long, int (*)(const void *, const void *));
static int add(int a, int b) { return a + b; }
static int sub(int a, int b) { return a - b; }
static int mul(int a, int b) { return a * b; }
static double half(double x) { return x / 2; }
static double twice(double x) { return x * 2; }
typedef int (*binop)(int, int);
static binop ops[] = {add, sub, mul, &add};
static binop pick(int k) { return k == 0 ? add : k == 1 ? sub : mul; }
static int apply(binop f, int a, int b) { return f(a, b); }
static int fold(int (*f)(int, int), const int *a, int n, int init) { int i; for (i = 0; i < n; i++) init = (*f)(init, a[i]); return init; }
static double compose(double (*f)(double), double (*g)(double), double x) { return f(g(x)); }
struct vt { const char *name; int (*op)(int, int); double (*un)(double); };
static const struct vt table[] = {{"add", add, half}, {"mul", mul, twice}};
static int (*(*getpick(void))(int))(int, int) { return pick; }
static int cmp_int(const void *a, const void *b) { int x = *(const int *)a, y = *(const int *)b; return x < y ? -1 : x > y; }
static int cmp_desc(const void *a, const void *b) { return -cmp_int(a, b); }
struct rec { char name[8]; double score; };
static int cmp_rec(const void *a, const void *b) { const struct rec *x = a, *y = b; return x->score < y->score ? -1 : x->score > y->score; }
int main(void)
{
	int a[] = {5, 3, 9, 1, 7, -4, 12, 0}, i, key = 7, *hit;
	struct rec r[] = {{"carol", 2.5}, {"alice", 9.75}, {"bob", -1.0}, {"dave", 2.25}};
	void (*generic)(void) = (void (*)(void))mul;
	printf("%d %d %d %d\n", ops[0](2, 3), (*ops[1])(2, 3), (**ops[2])(2, 3), ops[3](4, 5));
	for (i = 0; i < 3; i++) printf("%d %d ", pick(i)(10, 4), apply(pick(i), 7, 6));
	printf("\n%d %d %d\n", fold(add, a, 8, 0), fold(mul, a, 3, 1), fold(sub, a, 8, 100));
	printf("%g %g\n", compose(half, twice, 3.5), compose(twice, twice, 1.25));
	for (i = 0; i < 2; i++) printf("%s %d %g ", table[i].name, table[i].op(6, 7), table[i].un(5));
	printf("\n%d %d %d %d\n", ops[0] == ops[3], ops[0] == ops[1], pick(2) == mul, generic == (void (*)(void))mul);
	printf("%d %d\n", ((int (*)(int, int))generic)(6, 9), getpick()(1)(9, 4));
	qsort(a, 8, sizeof a[0], cmp_int);
	for (i = 0; i < 8; i++) printf("%d ", a[i]);
	hit = bsearch(&key, a, 8, sizeof a[0], cmp_int);
	printf("| %ld\n", hit ? (long)(hit - a) : -1L);
	qsort(a, 8, sizeof a[0], cmp_desc);
	for (i = 0; i < 8; i++) printf("%d ", a[i]);
	qsort(r, 4, sizeof r[0], cmp_rec);
	for (i = 0; i < 4; i++) printf("%s=%g ", r[i].name, r[i].score);
	printf("\n");
	return apply(ops[2], 6, 7);
}
