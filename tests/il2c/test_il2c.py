#!/usr/bin/env python3
"""Validation of vlib/il2c.py.  Usage: test_il2c.py [-j N] [--keep] [part ...]

parts:  il       hand-written IL files with known output (tests/il2c/il/*.qbe + .exp)
        api      unit checks of translate() (naming, maps, exceptions, speed)
        repo     every /repo/test/*.qbe translates and compiles (gcc -O0, gcc -O1, clang)
        progs    tests/il2c/progs/*.c : cproc -> il2c -> {gcc -O0 asan+ubsan, gcc -O1, clang -O0}
                 against gcc directly on the same C (stdout and exit status identical)
        interop  struct passing/returning between cproc-compiled and gcc-compiled code
        stage2   self-hosting smoke test (the compiler compiled by itself through il2c)
        mutants  (not in the default set) mutate the semantics table of il2c one entry at a time and
                 require that the 'il' or 'progs' part notices: a check of the tests, not of il2c
default: all but mutants.  Everything happens in a fresh directory under /tmp that is removed at exit.
"""
import argparse
import concurrent.futures as cf
import glob
import os
import shutil
import subprocess
import sys
import tempfile
import time

sys.dont_write_bytecode = True

HERE = os.path.dirname(os.path.abspath(__file__))
VERIF = os.path.dirname(os.path.dirname(HERE))
sys.path.insert(0, os.path.join(VERIF, 'vlib'))
import il2c  # noqa: E402
import ilparse  # noqa: E402

REPO = os.environ.get('VERIF_REPO', '/repo')
CPPFLAGS = ['-P', '-U__GNUC__', '-U__GNUC_MINOR__', '-D__STDC_NO_ATOMICS__', '-D__STDC_NO_COMPLEX__',
            '-U__SIZEOF_INT128__', '-U__PIC__', '-D__extension__=']
TIMEOUT = 300
SAN_ENV = dict(os.environ, ASAN_OPTIONS='detect_leaks=0:abort_on_error=0', UBSAN_OPTIONS='halt_on_error=1:print_stacktrace=0')
# the three ways the generated C is compiled
CONFIGS = [
    ('gcc-O0-san', ['gcc', '-O0', '-fno-builtin', '-w', '-fsanitize=address,undefined', '-fno-sanitize-recover=undefined']),
    ('gcc-O1', ['gcc', '-O1', '-w']),
    ('clang-O0', ['clang', '-O0', '-w']),
]


class Results:
    quiet = False

    def __init__(self):
        self.npass = self.nfail = 0
        self.fails = []

    def ok(self, name):
        self.npass += 1

    def fail(self, name, why):
        self.nfail += 1
        self.fails.append((name, why))
        if not self.quiet:
            print('FAIL %s: %s' % (name, why.rstrip()[-1500:]), flush=True)

    def check(self, cond, name, why=''):
        if cond:
            self.ok(name)
        else:
            self.fail(name, why)
        return cond


R = Results()
TMP = None
CPROC = None


def run(cmd, inp=None, env=None, cwd=None, timeout=TIMEOUT):
    """-> (returncode, stdout bytes, stderr bytes); returncode 'timeout' on timeout"""
    try:
        p = subprocess.run(cmd, input=inp, stdout=subprocess.PIPE, stderr=subprocess.PIPE, env=env, cwd=cwd, timeout=timeout)
        return p.returncode, p.stdout, p.stderr
    except subprocess.TimeoutExpired:
        return 'timeout', b'', b'timeout after %d s' % timeout


def must(cmd, **kw):
    rc, out, err = run(cmd, **kw)
    if rc != 0:
        raise RuntimeError('%s -> %s\n%s' % (' '.join(cmd), rc, err.decode(errors='replace')[-3000:]))
    return out


def build_cproc():
    out = must([sys.executable, os.path.join(VERIF, 'vlib', 'build.py'), 'plain'])
    path = out.decode().strip().splitlines()[-1]
    if not os.access(path, os.X_OK):
        raise RuntimeError('build.py did not produce a compiler: %r' % path)
    return path


def cpp(src, defs=(), text=None):
    cmd = ['cpp'] + CPPFLAGS + list(defs)
    if text is None:
        return must(cmd + [src])
    return must(cmd + ['-'], inp=text)


def cproc(pp_text, target=None):
    cmd = [CPROC] + (['-t', target] if target else [])
    return must(cmd, inp=pp_text).decode('latin-1')


def say(msg):
    if not R.quiet:
        print(msg, flush=True)


def pmap(fn, items, jobs):
    with cf.ThreadPoolExecutor(max_workers=jobs) as ex:
        return list(ex.map(fn, items))


# ---------------------------------------------------------------------------
def part_repo(jobs):
    """1. every /repo/test/*.qbe translates and the C compiles"""
    files = sorted(glob.glob(os.path.join(REPO, 'test', '*.qbe')))
    d = os.path.join(TMP, 'repo')
    os.makedirs(d)

    def one(f):
        b = os.path.basename(f)[:-4]
        try:
            c = il2c.translate(open(f, 'rb').read())
        except Exception as e:
            return [(b + ':translate', '%s: %s' % (type(e).__name__, e))]
        cf_ = os.path.join(d, b + '.c')
        open(cf_, 'w').write(c)
        res = [(b + ':translate', None)]
        for name, cc in (('gcc-O0', ['gcc', '-O0', '-fno-builtin', '-w']), ('gcc-O1', ['gcc', '-O1', '-w']), ('clang-O0', ['clang', '-O0', '-w'])):
            rc, _, err = run(cc + ['-c', cf_, '-o', os.path.join(d, '%s.%s.o' % (b, name))])
            res.append(('%s:%s' % (b, name), None if rc == 0 else err.decode(errors='replace')))
        return res

    n = 0
    for res in pmap(one, files, jobs):
        for name, err in res:
            R.check(err is None, 'repo/' + name, err or '')
        n += 1
    R.check(n >= 150, 'repo/count', 'only %d .qbe files found' % n)
    say('repo: %d IL files translated and compiled with 3 compiler configurations' % n)


# ---------------------------------------------------------------------------
def build_and_run(name, c_text, d, extra_objs=(), args=(), stdin=None, configs=CONFIGS):
    """compile generated C under every configuration, run; -> {config: (rc, stdout)} or error text"""
    out = {}
    cfile = os.path.join(d, name + '.il.c')
    open(cfile, 'w').write(c_text)
    for cname, cc in configs:
        exe = os.path.join(d, '%s.%s' % (name, cname))
        rc, _, err = run(cc + [cfile] + list(extra_objs) + ['-o', exe, '-lm'])
        if rc != 0:
            out[cname] = 'compile failed: ' + err.decode(errors='replace')
            continue
        rc, so, se = run([exe] + list(args), inp=stdin, env=SAN_ENV)
        out[cname] = (rc, so, se)
    return out


def part_il(jobs):
    """hand-written IL with known results"""
    d = os.path.join(TMP, 'il')
    os.makedirs(d)
    files = sorted(glob.glob(os.path.join(HERE, 'il', '*.qbe')))

    def one(f):
        b = os.path.basename(f)[:-4]
        exp = open(f[:-4] + '.exp', 'rb').read()
        try:
            c = il2c.translate(open(f, 'rb').read(), export_map={'main': 'main'})
        except Exception as e:
            return b, '%s: %s' % (type(e).__name__, e)
        return b, (exp, build_and_run(b, c, d))

    for b, res in pmap(one, files, jobs):
        if isinstance(res, str):
            R.fail('il/' + b, res)
            continue
        exp, outs = res
        for cname, o in outs.items():
            if isinstance(o, str):
                R.fail('il/%s:%s' % (b, cname), o)
            else:
                rc, so, se = o
                R.check(rc == 0 and so == exp, 'il/%s:%s' % (b, cname),
                        'rc=%s\n--- expected\n%s--- got\n%s--- stderr\n%s' % (rc, exp.decode(), so.decode(errors='replace'), se.decode(errors='replace')[-800:]))
    say('il: %d hand-written IL files' % len(files))


# ---------------------------------------------------------------------------
def part_api(jobs):
    T = il2c.translate
    # naming, prefix, maps
    il = '''
data $.Lstr.1 = align 1 { b "hi\\000", }
export data $tab = align 8 { l $.Lstr.1 + 1, l $ext_obj, l $helper, w 7, z 4 }
function w $helper(w %x) {
@s
	%x.1 =w add %x, 1
	ret %x.1
}
export function w $entry(w %a.b, w %a_b, w %a_d) {
@start
	%r =w call $helper(w %a.b)
	%q =w call $other(w %r, l $tab)
	%int =w add %q, %a_b
	%while =w add %int, %a_d
	ret %while
}
'''
    c = T(il)
    R.check('__asm__("il_entry")' in c and '__asm__("il_tab")' in c, 'api/default-prefix', c)
    R.check('__asm__("il_helper")' in c and 'static uint32_t G_helper' in c, 'api/static-nonexported', c)
    R.check('__asm__("other")' in c and '__asm__("ext_obj")' in c, 'api/extern-plain-name', c)
    R.check('static struct D__dLstr_d1' in c or 'static struct D__dLstr_d1 ' in c, 'api/local-data-static', c)
    c = T(il, prefix='zz_', export_map={'entry': 'f', 'tab': 'the_table'}, extern_map={'other': 's2_other'})
    R.check('__asm__("f")' in c and '__asm__("the_table")' in c and '__asm__("zz_helper")' in c and '__asm__("s2_other")' in c
            and '__asm__("ext_obj")' in c and 'il_' not in c, 'api/maps', c)
    # mangling is injective on tricky names
    names = ['a.b', 'a_b', 'a_d', 'a__b', 'a._b', 'a_.b', 'a$b', 'a_Sb', '.1', '_d1', 'x_x2e', 'x.', 'x_', 'x__', 'int', 'while']
    R.check(len({il2c.mangle(n) for n in names}) == len(names), 'api/mangle-injective', str([il2c.mangle(n) for n in names]))
    R.check(all(all(ch.isalnum() or ch == '_' for ch in il2c.mangle(n)) for n in names + ['q"uo te', 'é']), 'api/mangle-charset')
    # exceptions
    for nm, text, exc in [
        ('env-param', 'function $f(env %e, w %a) {\n@s\n\tret\n}\n', il2c.Unsupported),
        ('env-arg', 'function $f(l %e) {\n@s\n\tcall $g(env %e, w 1)\n\tret\n}\n', il2c.Unsupported),
        ('class-mismatch', 'function $f(w %a) {\n@s\n\t%b =l add %a, 1\n\tret\n}\n', il2c.TranslateError),
        ('float-int-mix', 'function $f(s %a) {\n@s\n\t%b =w add %a, 1\n\tret\n}\n', il2c.TranslateError),
        ('unknown-op', 'function $f(w %a) {\n@s\n\t%b =w frob %a, 1\n\tret\n}\n', il2c.TranslateError),
        ('undefined-temp', 'function $f(w %a) {\n@s\n\t%b =w add %c, 1\n\tret\n}\n', il2c.TranslateError),
        ('undefined-type', 'function $f(:t %a) {\n@s\n\tret\n}\n', il2c.TranslateError),
        ('undefined-block', 'function $f() {\n@s\n\tjmp @nowhere\n}\n', il2c.TranslateError),
        ('double-def', 'function $f() {\n@s\n\tret\n}\ndata $f = { w 1 }\n', il2c.TranslateError),
        ('vastart-nonvariadic', 'function $f(l %a) {\n@s\n\tvastart %a\n\tret\n}\n', il2c.TranslateError),
        ('parse-error', 'function $f( {\n', ilparse.ParseError),
    ]:
        try:
            T(text)
            R.fail('api/exc-' + nm, 'no exception')
        except exc as e:
            R.check(bool(str(e)), 'api/exc-' + nm)
        except Exception as e:
            R.fail('api/exc-' + nm, 'wrong exception %r' % e)
    # falls off the end / ret without value: translator must not crash, C must compile
    d = os.path.join(TMP, 'api')
    os.makedirs(d)
    odd = 'export function w $f(w %a) {\n@s\n\t%b =w add %a, 1\n@t\n}\nexport function w $g() {\n@s\n\tret\n}\nexport function :t $h() {\n@s\n\tret\n}\ntype :t = { w }\n'
    open(os.path.join(d, 'odd.c'), 'w').write(T(odd))
    rc, _, err = run(['gcc', '-c', '-w', os.path.join(d, 'odd.c'), '-o', os.path.join(d, 'odd.o')])
    R.check(rc == 0, 'api/fall-off-end-compiles', err.decode())
    # ASan sees overflows of alloc'd objects: fixed local (start block), alloca (in a loop), dynamic size
    for nm, body in [
        ('asan-alloc-start', '@s\n\t%p =l alloc4 12\n\t%q =l add %p, 12\n\tstoreb 1, %q\n\tret 0\n'),
        ('asan-alloc-loop', '@s\n\t%i =w copy 0\n@l\n\t%p =l alloc8 24\n\t%q =l add %p, 24\n\t%ii =l extuw %i\n\t%q =l add %q, %ii\n\tstorew 1, %q\n\t%i =w add %i, 1\n\t%c =w cultw %i, 2\n\tjnz %c, @l, @e\n@e\n\tret 0\n'),
        ('asan-alloc-dyn', '@s\n\t%n =l extuw %argc\n\t%n =l mul %n, 10\n\t%p =l alloc16 %n\n\t%q =l add %p, %n\n\t%v =w loadub %q\n\tret %v\n'),
        ('asan-data', '@s\n\t%q =l add $obj, 5\n\t%v =w loadub %q\n\tret %v\n'),
    ]:
        text = 'data $obj = { b 1 2 3 4 5 }\nexport function w $main(w %argc, l %argv) {\n' + body + '}\n'
        cfile = os.path.join(d, nm + '.c')
        open(cfile, 'w').write(T(text, export_map={'main': 'main'}))
        for cc in ('gcc', 'clang'):
            exe = os.path.join(d, nm + '.' + cc)
            rc, _, err = run([cc, '-O0', '-w', '-fsanitize=address', cfile, '-o', exe])
            if not R.check(rc == 0, 'api/%s:%s:compile' % (nm, cc), err.decode()):
                continue
            rc, _, err = run([exe], env=SAN_ENV)
            R.check(rc != 0 and b'AddressSanitizer' in err and b'overflow' in err, 'api/%s:%s' % (nm, cc), 'rc=%r %s' % (rc, err.decode()[:300]))
    # linkage odds and ends: section, dbgloc/dbgfile, external thread-local, default data alignment
    text = ('dbgfile "x.c"\nexport section ".data.il2c" data $sec = align 4 { w 1 }\nsection ".text.il2c" "ax" function w $f() {\n@s\n\tdbgloc 3\n'
            '\t%a =w loadw thread $ext_tls\n\t%b =w loadw $sec\n\t%c =w add %a, %b\n\tret %c\n}\n')
    try:
        c = T(text)
        open(os.path.join(d, 'link.c'), 'w').write(c)
        ok = 'section(".data.il2c")' in c and 'extern __thread' in c
        for cc in ('gcc', 'clang'):
            rc, _, err = run([cc, '-c', '-w', os.path.join(d, 'link.c'), '-o', os.path.join(d, 'link.o')])
            ok = ok and rc == 0
        R.check(ok, 'api/linkage-misc', c[-600:] + err.decode())
    except Exception as e:
        R.fail('api/linkage-misc', repr(e))
    # speed: a 30k-line module (one big function + many small ones + data)
    lines = ['export function w $big(w %a) {', '@start', '\t%p =l alloc8 64', '\t%v0 =w copy %a']
    n = 0
    for i in range(3000):
        lines += ['@b%d' % i, '\t%%v%d =w add %%v%d, %d' % (n + 1, n, i), '\t%%v%d =w mul %%v%d, 3' % (n + 2, n + 1),
                  '\tstorew %%v%d, %%p' % (n + 2), '\t%%v%d =w loadw %%p' % (n + 3), '\t%%c%d =w cultw %%v%d, 12345' % (i, n + 3),
                  '\tjnz %%c%d, @b%d, @b%d' % (i, i + 1, i + 1)]
        n += 3
    lines += ['@b3000', '\tret %%v%d' % n, '}']
    for i in range(1200):
        lines += ['function w $f%d(w %%a, l %%b) {' % i, '@s', '\t%x =w add %a, 1', '\t%y =l extsw %x', '\t%z =l add %y, %b', '\t%w =w ceql %z, 0', '\tret %w', '}']
    for i in range(300):
        lines += ['data $d%d = align 8 { l %d, w 1 2 3, b "some string\\000", z 5 }' % (i, i)]
    text = '\n'.join(lines) + '\n'
    t0 = time.time()
    c = T(text)
    dt = time.time() - t0
    nl = text.count('\n')
    R.check(nl >= 30000 and dt < 8.0, 'api/speed', '%d lines in %.2f s' % (nl, dt))
    open(os.path.join(d, 'big.c'), 'w').write(c)
    open(os.path.join(d, 'bigmain.c'), 'w').write('#include <stdio.h>\nunsigned il_big(unsigned);\nint main(void){printf("%u\\n", il_big(5));return 0;}\n')
    t1 = time.time()
    rc, _, err = run(['gcc', '-O0', '-w', os.path.join(d, 'big.c'), os.path.join(d, 'bigmain.c'), '-o', os.path.join(d, 'big')])
    dt2 = time.time() - t1
    R.check(rc == 0 and dt2 < 60, 'api/big-compiles', '%.1f s %s' % (dt2, err.decode()[-500:]))
    v = 5
    for i in range(3000):
        v = ((v + i) * 3) & 0xffffffff
    rc, so, _ = run([os.path.join(d, 'big')])
    R.check(rc == 0 and so.strip() == str(v).encode(), 'api/big-runs', '%r vs %d' % (so, v))
    say('api: %d-line module translated in %.2f s, gcc -O0 %.1f s' % (nl, dt, dt2))


# ---------------------------------------------------------------------------
def reference(name, src, d, extra=()):
    """gcc directly on the C source -> (rc, stdout)"""
    exe = os.path.join(d, name + '.ref')
    must(['gcc', '-O0', '-w', '-fno-builtin', '-o', exe, src] + list(extra) + ['-lm'])
    rc, so, se = run([exe])
    return rc, so


def part_progs(jobs):
    """2. C programs: cproc -> il2c -> cc  ==  gcc"""
    d = os.path.join(TMP, 'progs')
    os.makedirs(d)
    files = sorted(glob.glob(os.path.join(HERE, 'progs', '*.c')))

    def one(f):
        b = os.path.basename(f)[:-2]
        try:
            ref = reference(b, f, d)
            il = cproc(cpp(f))
            open(os.path.join(d, b + '.qbe'), 'w').write(il)
            c = il2c.translate(il, export_map={'main': 'main'})
            return b, ref, build_and_run(b, c, d)
        except Exception as e:
            return b, None, '%s: %s' % (type(e).__name__, e)

    for b, ref, outs in pmap(one, files, jobs):
        if isinstance(outs, str):
            R.fail('progs/' + b, outs)
            continue
        R.check(isinstance(ref[0], int) and 0 <= ref[0] < 128 and len(ref[1]) > 0, 'progs/%s:reference-sane' % b, 'rc=%r, %d bytes' % (ref[0], len(ref[1])))
        for cname, o in outs.items():
            if isinstance(o, str):
                R.fail('progs/%s:%s' % (b, cname), o)
                continue
            rc, so, se = o
            why = ''
            if (rc, so) != ref:
                why = 'exit status %r vs reference %r; ' % (rc, ref[0]) + first_diff(ref[1], so) + '\nstderr: ' + se.decode(errors='replace')[-1200:]
            R.check((rc, so) == ref, 'progs/%s:%s' % (b, cname), why)
    say('progs: %d programs x %d configurations' % (len(files), len(CONFIGS)))
    return len(files)


def first_diff(a, b):
    la, lb = a.split(b'\n'), b.split(b'\n')
    for i in range(max(len(la), len(lb))):
        x = la[i] if i < len(la) else b'<eof>'
        y = lb[i] if i < len(lb) else b'<eof>'
        if x != y:
            return 'first difference at line %d:\n  ref: %s\n  got: %s' % (i + 1, x.decode(errors='replace')[:300], y.decode(errors='replace')[:300])
    return 'outputs equal'


# ---------------------------------------------------------------------------
def part_interop(jobs):
    """2b. by-value aggregates across the cproc/gcc boundary, both directions"""
    sys.path.insert(0, HERE)
    import gen_interop
    d = os.path.join(TMP, 'interop')
    os.makedirs(d)
    units = gen_interop.generate()     # [(name, side_source, main_source)]

    def one(u):
        name, side, main = u
        try:
            objs = {}
            srcs = {}
            for me, other in (('a', 'b'), ('b', 'a')):
                pp = cpp(None, ['-DME=' + me, '-DOTHER=' + other], text=side.encode())
                s = os.path.join(d, '%s_%s.c' % (name, me))
                open(s, 'wb').write(pp)
                srcs[me] = s
                o = os.path.join(d, '%s_%s.gcc.o' % (name, me))
                must(['gcc', '-O0', '-w', '-fno-builtin', '-c', s, '-o', o])
                objs[me, 'gcc'] = o
                il = cproc(pp)
                open(os.path.join(d, '%s_%s.qbe' % (name, me)), 'w').write(il)
                # every exported symbol of the cproc side keeps its C name: gcc code links against it
                c = il2c.translate(il, prefix='il_%s_' % me, export_map={n: n for n, k, e in il2c.defined_symbols(il) if e})
                cfile = os.path.join(d, '%s_%s.il.c' % (name, me))
                open(cfile, 'w').write(c)
                for cname, cc in CONFIGS:
                    o = os.path.join(d, '%s_%s.%s.o' % (name, me, cname))
                    must(cc + ['-c', cfile, '-o', o])
                    objs[me, cname] = o
            mo = os.path.join(d, name + '_main.o')
            ms = os.path.join(d, name + '_main.c')
            open(ms, 'w').write(main)
            must(['gcc', '-O0', '-w', '-c', ms, '-o', mo])

            def link_run(ka, kb, tag):
                exe = os.path.join(d, '%s.%s' % (name, tag))
                san = ['-fsanitize=address,undefined'] if 'san' in ka + kb else []
                must(['gcc'] + san + [mo, objs['a', ka], objs['b', kb], '-o', exe, '-lm'])
                rc, so, se = run([exe], env=SAN_ENV)
                return rc, so, se
            ref = link_run('gcc', 'gcc', 'ref')
            res = []
            for cname, _ in CONFIGS:
                res.append(('a=cproc,b=gcc:' + cname, link_run(cname, 'gcc', 'ag.' + cname)))
                res.append(('a=gcc,b=cproc:' + cname, link_run('gcc', cname, 'ga.' + cname)))
                res.append(('a=cproc,b=cproc:' + cname, link_run(cname, cname, 'aa.' + cname)))
            return name, ref, res
        except Exception as e:
            return name, None, '%s: %s' % (type(e).__name__, e)

    total = 0
    for name, ref, res in pmap(one, units, jobs):
        if isinstance(res, str):
            R.fail('interop/' + name, res)
            continue
        R.check(ref[0] == 0 and len(ref[1]) > 100, 'interop/%s:reference-sane' % name, 'rc=%r %d bytes' % (ref[0], len(ref[1])))
        for tag, (rc, so, se) in res:
            why = ''
            if (rc, so) != ref[:2]:
                why = 'rc %r vs %r; %s\nstderr: %s' % (rc, ref[0], first_diff(ref[1], so), se.decode(errors='replace')[-1200:])
            R.check((rc, so) == ref[:2], 'interop/%s:%s' % (name, tag), why)
            total += 1
    say('interop: %d units, %d mixed executables compared with the all-gcc build' % (len(units), total))


# ---------------------------------------------------------------------------
STAGE2_SRCS = 'attr decl eval expr init main map pp scan scope stmt targ token tree type utf util qbe'.split()
STAGE2_SKIP_PREFIX = ('preprocess-',)   # those are inputs for -E, not for the compiler proper


def part_stage2(jobs):
    """3. the compiler compiled by itself, via il2c, must behave like the gcc-built one"""
    d = os.path.join(TMP, 'stage2')
    os.makedirs(d)
    ils = {}
    try:
        for m in STAGE2_SRCS:
            ils[m] = cproc(cpp(os.path.join(REPO, m + '.c')))
    except Exception as e:
        R.fail('stage2/cproc-compiles-itself', str(e))
        return
    R.ok('stage2/cproc-compiles-itself')
    # all exported definitions of the set -> s2_<name>; main stays main
    defined = {}
    for m, il in ils.items():
        for n, kind, exp in il2c.defined_symbols(il):
            if exp:
                if n in defined:
                    R.fail('stage2/duplicate', '%s defined in %s and %s' % (n, defined[n], m))
                defined[n] = m
    xmap = {n: 's2_' + il2c.mangle(n) for n in defined if n != 'main'}
    xmap['main'] = 'main'

    def one(m, cc=('gcc', '-O0', '-w', '-fno-builtin'), tag='O0'):
        try:
            t0 = time.time()
            c = il2c.translate(ils[m], prefix='s2_', export_map={'main': 'main'}, extern_map=xmap)
            dt = time.time() - t0
            cfile = os.path.join(d, m + '.il.c')
            open(cfile, 'w').write(c)
            o = os.path.join(d, '%s.%s.o' % (m, tag))
            must(list(cc) + ['-c', cfile, '-o', o])
            return m, o, dt
        except Exception as e:
            return m, None, '%s: %s' % (type(e).__name__, e)

    variants = [('O0', ('gcc', '-O0', '-w', '-fno-builtin'), []),
                ('san', ('gcc', '-O0', '-w', '-fno-builtin', '-fsanitize=address,undefined', '-fno-sanitize-recover=undefined'), ['-fsanitize=address,undefined']),
                ('O1', ('gcc', '-O1', '-w'), []),
                ('clang', ('clang', '-O0', '-w'), [])]
    exes = {}
    for tag, cc, ldflags in variants:
        objs = []
        good = True
        for m, o, info in pmap(lambda m: one(m, cc, tag), STAGE2_SRCS, jobs):
            if o is None:
                R.fail('stage2/%s:%s' % (tag, m), info)
                good = False
            else:
                objs.append(o)
        if not good:
            continue
        exe = os.path.join(d, 'stage2.' + tag)
        rc, _, err = run(['gcc'] + ldflags + objs + ['-o', exe])
        if R.check(rc == 0, 'stage2/%s:link' % tag, err.decode(errors='replace')):
            exes[tag] = exe
    n = 0
    for tag, exe in exes.items():
        for src in sorted(glob.glob(os.path.join(REPO, 'test', '*.c'))):
            t = os.path.basename(src)[:-2]
            if t.startswith(STAGE2_SKIP_PREFIX):
                continue
            targ = ['-t', t.split('+')[1]] if '+' in t else []
            text = open(src, 'rb').read()
            r1 = run([CPROC] + targ, inp=text)
            r2 = run([exe] + targ, inp=text, env=SAN_ENV)
            R.check(isinstance(r1[0], int) and 0 <= r1[0] <= 1 and r1 == r2, 'stage2/%s:%s' % (tag, t),
                    'rc %r vs %r; %s\nstderr: %s' % (r2[0], r1[0], first_diff(r1[1], r2[1]), r2[2].decode(errors='replace')[-1500:]))
            n += 1
        # the strongest input: the compiler's own (preprocessed) sources -> identical IL (fixed point)
        for m in STAGE2_SRCS:
            text = cpp(os.path.join(REPO, m + '.c'))
            r2 = run([exe], inp=text, env=SAN_ENV)
            R.check(r2[0] == 0 and r2[1].decode('latin-1') == ils[m], 'stage2/%s:self:%s' % (tag, m),
                    'rc %r; %s\nstderr: %s' % (r2[0], first_diff(ils[m].encode('latin-1'), r2[1]), r2[2].decode(errors='replace')[-1500:]))
            n += 1
        # error path (exercises error() -> vfprintf with a va_list, exit status)
        bad = b'int main(void) { return undeclared_identifier; }\n'
        r1 = run([CPROC], inp=bad)
        r2 = run([exe], inp=bad, env=SAN_ENV)
        R.check(r1[0] != 0 and r1 == r2, 'stage2/%s:diagnostic' % tag, '%r vs %r' % (r1, r2))
        n += 1
    say('stage2: %d variants linked (%s), %d comparisons' % (len(exes), ' '.join(exes), n))


# ---------------------------------------------------------------------------
MUTANTS = [  # (opcode, class key or None, replacement template): each must make 'il' or 'progs' fail
    ('sar', None, '{0} >> ({1} & {M})'),
    ('shl', None, '{0} << {1}'),
    ('shr', None, '{0} >> ({1} & 31)'),
    ('div', 'i', '{0} / {1}'),
    ('rem', None, '{0} % {1}'),
    ('udiv', None, '({U})(({S}){0} / ({S}){1})'),
    ('urem', None, '({U})(({S}){0} % ({S}){1})'),
    ('neg', None, '~{0}'),
    ('csltw', None, '({U})({0} < {1})'),
    ('cultl', None, '({U})((int64_t){0} < (int64_t){1})'),
    ('csgel', None, '({U})({0} >= {1})'),
    ('ceqw', None, '({U})({0} != {1})'),
    ('loadsb', None, '({U})il2c_ld1({0})'),
    ('loaduh', None, '({U})(int16_t)il2c_ld2({0})'),
    ('loadw', None, '({U})il2c_ld4({0})'),
    ('loadsw', None, '({U})il2c_ld4({0})'),
    ('loaduw', None, '({U})(int32_t)il2c_ld4({0})'),
    ('storeh', None, 'il2c_st4({1}, {0});'),
    ('storeb', None, 'il2c_st2({1}, (uint16_t){0});'),
    ('blit', None, '__builtin_memmove((char *){0}, (const char *){1}, {2});'),
    ('extsw', None, '(uint64_t){0}'),
    ('extuw', None, '(uint64_t)(int32_t){0}'),
    ('extsb', None, '({U})(uint8_t){0}'),
    ('extuh', None, '({U})(int16_t){0}'),
    ('exts', None, '(double)(float)(int32_t){0}'),
    ('stosi', None, '({U})(int32_t){0}'),
    ('dtosi', None, '({U})(int64_t)({0} + 0.5)'),
    ('dtoui', 'l', '(uint64_t)(int64_t){0}'),
    ('stoui', 'w', '(uint32_t)(int32_t){0}'),
    ('swtof', None, '({F}){0}'),
    ('uwtof', None, '({F})(int32_t){0}'),
    ('sltof', None, '({F})(double)(int64_t){0}'),
    ('ultof', None, '({F})(int64_t){0}'),
    ('cast', 'w', '(uint32_t){0}'),
    ('cast', 'd', '(double){0}'),
    ('copy', None, '{0} + 1'),
    ('clts', None, '({U})(!({0} >= {1}))'),
    ('cned', None, '({U})(({0} < {1}) | ({0} > {1}))'),
    ('cuod', None, '({U})0'),
    ('cos', None, '({U})1'),
    ('cged', None, '({U})({0} > {1})'),
    ('vaarg', 'd', '(double)__builtin_va_arg(*(va_list *)(char *){0}, uint64_t)'),
    ('alloc16', None, '(uint64_t)__builtin_alloca_with_align({0}, 128)'),   # the gcc -O1 folding trap
]


def part_mutants(jobs):
    """not a test of il2c but of this test-suite: every mutation of the semantics table must be noticed"""
    global R
    real = R
    survivors = []

    def attempt(label, apply, undo):
        global R
        apply()
        R = Results()
        R.quiet = True
        try:
            part_il(jobs)
            if not R.nfail:
                part_progs(jobs)
            killed = R.nfail > 0
        except Exception:
            killed = True
        finally:
            undo()
            shutil.rmtree(os.path.join(TMP, 'il'), ignore_errors=True)
            shutil.rmtree(os.path.join(TMP, 'progs'), ignore_errors=True)
            R = real
        if not R.check(killed, 'mutants/' + label, 'mutation survived il+progs'):
            survivors.append(label)

    for op, key, tmpl in MUTANTS:
        old = il2c.OPS[op]

        def apply(op=op, key=key, tmpl=tmpl, old=old):
            if key is None:
                il2c.OPS[op] = (old[0], old[1], tmpl)
            else:
                d = dict(old[2])
                assert key in d, (op, key)
                d[key] = tmpl
                il2c.OPS[op] = (old[0], old[1], d)

        def undo(op=op, old=old):
            il2c.OPS[op] = old
        attempt('%s%s' % (op, ':' + key if key else ''), apply, undo)
    # phi copies performed sequentially instead of in parallel
    orig_edge = il2c._Func.edge

    def seq_edge(self, src, dst_name, line):
        dst = self.blocks[dst_name]
        out = []
        for p in dst.phis:
            for l, v in p.args:
                if l == src.name:
                    out.append('t_%s = %s;' % (il2c.mangle(p.res[1:]), self.opnd(v, p.cls, p.line)))
                    break
        return ' '.join(out) + ' ' if out else ''
    attempt('phi-sequential', lambda: setattr(il2c._Func, 'edge', seq_edge), lambda: setattr(il2c._Func, 'edge', orig_edge))
    # every block treated as executed once (alloc in loops shares one object)
    orig_once = il2c._Func.once
    attempt('alloc-never-fresh', lambda: setattr(il2c._Func, 'once', lambda self, b: True), lambda: setattr(il2c._Func, 'once', orig_once))
    say('mutants: %d mutations, %d survived %s' % (len(MUTANTS) + 2, len(survivors), survivors))


# ---------------------------------------------------------------------------
PARTS = [('api', part_api), ('il', part_il), ('repo', part_repo), ('progs', part_progs), ('interop', part_interop), ('stage2', part_stage2), ('mutants', part_mutants)]
DEFAULT = ['api', 'il', 'repo', 'progs', 'interop', 'stage2']


def main():
    global TMP, CPROC
    ap = argparse.ArgumentParser()
    ap.add_argument('parts', nargs='*')
    ap.add_argument('-j', type=int, default=min(16, os.cpu_count() or 1))
    ap.add_argument('--keep', action='store_true')
    ap.add_argument('--tmp', help='work in this (existing, empty) directory; it is still removed at exit unless --keep')
    a = ap.parse_args()
    want = a.parts or DEFAULT
    for w in want:
        if w not in dict(PARTS):
            sys.exit('unknown part %s' % w)
    TMP = a.tmp or tempfile.mkdtemp(prefix='il2c-test-', dir='/tmp')
    try:
        CPROC = build_cproc()
        for name, fn in PARTS:
            if name in want:
                t0 = time.time()
                try:
                    fn(a.j)
                except Exception as e:
                    R.fail(name + '/infrastructure', '%s: %s' % (type(e).__name__, e))
                print('-- %s done in %.1f s (running total: %d PASS, %d FAIL)' % (name, time.time() - t0, R.npass, R.nfail), flush=True)
    finally:
        if a.keep:
            print('kept ' + TMP)
        else:
            shutil.rmtree(TMP, ignore_errors=True)
    print('PASS %d  FAIL %d' % (R.npass, R.nfail))
    for n, _ in R.fails:
        print('  failed: ' + n)
    sys.exit(1 if R.nfail else 0)


if __name__ == '__main__':
    main()
