#!/bin/sh
# Validation of vlib/il2c.py (QBE IL -> C).  Usage: run.sh [-j N] [part ...]
#   parts: api il repo progs interop stage2   (default: all of these)   mutants (optional, ~1 min)
# Prints one FAIL line per failed check and finally "PASS n  FAIL m"; exit status 0 iff m == 0.
# Works in a fresh directory under /tmp which is removed on exit (also on interrupt/timeout).
here=$(cd "$(dirname "$0")" && pwd)
tmp=$(mktemp -d /tmp/il2c-test-XXXXXX) || exit 2
trap 'rm -rf "$tmp"' EXIT
trap 'exit 130' INT TERM HUP
timeout 3600 python3 "$here/test_il2c.py" --tmp "$tmp" "$@"
