char s[10] = {"abc", [5] = 1};
