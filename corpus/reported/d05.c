#define f(x) x
int f
f








































;
