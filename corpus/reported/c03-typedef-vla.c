void f(int n, int c) {
	typedef int T[n];
	if (c) {
		T a;
		a[0] = 1;
	} else {
		T b;
		b[0] = 2;
	}
}
