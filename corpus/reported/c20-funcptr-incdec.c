void g(void);
void f(void) { void (*fp)(void) = g; fp++; ++fp; }
