typedef int F(void);
F f { }
