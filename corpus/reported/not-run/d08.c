void f(void){char a[1ULL<<40] = {0};}
