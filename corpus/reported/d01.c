#define g(x) x
#define A 1 g
int a = A
#undef A
+ 2;
