struct { struct {int a, b;}; int c; } s = { .b = 1, 2 };
