struct E { int a[0]; }; struct T { int n; struct E e[]; }; struct T g(void); void f(void) { g(); }
