#define g(x) x
#define M(a) a
int M(g);
