struct E { int a[0]; }; void f(void) { struct E a[3]; }
