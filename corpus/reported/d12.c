enum E; enum E *p; int f(void) { return *p + 1; }
