struct {union {int a; char c;};} x = {.a=1, .c=2};
