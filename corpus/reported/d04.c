enum E; int x = (enum E)1;
