int printf(const char *, ...);
int main(void) {
	int a = 5, b = 3, x = 3, y = 2; int arr[4] = {10, 20, 30, 40}; int *p = arr + 2; struct { int m; } s = {7}, *q = &s;
	printf("%d ", a+++b); printf("%d ", a); a = 5;
	printf("%d ", a---b); printf("%d ", a); a = 5;
	x<<=y; printf("%d ", x);
	printf("%g ", 1e+5-1); printf("%d ", 0xe +1); printf("%g ", 0x1p+2-1); printf("%g ", 1.e-1+1);
	printf("%d ", a-->b); printf("%d ", a); a = 5;
	printf("%d ", a+ ++b); b = 3; printf("%d ", a- -b); printf("%d ", a&&b); printf("%d ", a&-b); printf("%d ", a/ *p);
	printf("%d ", q->m); printf("%d ", a>>1>1); printf("%d ", a<b<1); printf("%d ", a|b||0); printf("%d ", a^b^a);
	printf("%d ", 1?2:3); printf("%d ", a!=b); printf("%d ", !a==0); printf("%d ", -a-- - --b); printf("%d %d ", a, b); a = 5; b = 3;
	printf("%d ", a%b*2); x = 7; x%=4; printf("%d ", x); x = 1; x|=6; x&=~2; x^=1; printf("%d ", x); x = 64; x>>=2; x/=2; x*=3; x-=1; x+=2; printf("%d ", x);
	printf("%d ", sizeof(int)*2==8); printf("%d ", (a,b)); printf("%d %d ", 'a', '\''); printf("%s%s ", "x" "y", "z"); printf("%c%c ", "a//b"[1], "a/*b*/"[2]);
	printf("%d ", 3 /* c */ + /* d */ 4); printf("%d ", 3 // comment \
 continued
	+ 1); printf("%d ", a /**/ - /**/ -b);
	printf("%d ", a+++ +b); printf("%d ", a--- -b); printf("%d ", a<<1<<1); printf("%d ", x>=y>=0); printf("%d ", x<=y<=1); printf("%d ", a==b==0);
	printf("\n");
	return 0;
}
