/* goto: forward, backward loops, out of nested loops, into blocks past uninitialised declarations, state machines */
int printf(const char *, ...);

static unsigned sum;

static int forward(int n)
{
	int r = 0;

	if (n == 0)
		goto zero;
	if (n == 1)
		goto one;
	r += 100;
	goto end;
zero:
	r += 1;
one:
	r += 10;
end:
	return r;
}

static int backward(int n)
{
	int i = 0, r = 0;

again:
	if (i < n) {
		r += i * i;
		i++;
		goto again;
	}
	return r;
}

static int out_of_nested(int limit)
{
	int i, j, k, cnt = 0;

	for (i = 0; i < 5; i++)
		for (j = 0; j < 5; j++) {
			k = 0;
			while (1) {
				cnt++;
				if (i * 25 + j * 5 + k >= limit)
					goto out;
				if (++k == 5)
					break;
			}
		}
out:
	return cnt * 1000 + i * 100 + j * 10 + k;
}

static int into_block(int n)
{
	int r = 0;

	if (n & 1)
		goto inside;		/* jumps past the declaration of t (no initialiser: legal) */
	r = 5;
	{
		int t;
		int u[3];

		t = 100;
		if (0) {
inside:
			t = 200;
		}
		u[0] = t;
		u[1] = t + 1;
		u[2] = u[0] + u[1];
		r += u[2];
	}
	return r;
}

static int into_loop(int n)
{
	/* entering a loop body in the middle */
	int i = 0, r = 0;

	if (n > 2)
		goto middle;
	for (i = 0; i < n + 3; i++) {
		r += 10;
middle:
		r += 1;
	}
	return r * 100 + i;
}

static int labels(int n)
{
	int r = 0;

	goto l1;
l3:	r = r * 10 + 3;
	if (n-- > 0)
		goto l2;
	goto l4;
l1:	r = r * 10 + 1;
l2:	r = r * 10 + 2;
	goto l3;
l4:;				/* label before a null statement at the end of a block */
	{
l5:		;
		if (r < 100000 && n-- > -2) {
			r = r * 10 + 5;
			goto l5;
		}
	}
	return r;
}

/* state machine recognising an optionally signed decimal with optional fraction: returns digits seen, or -state on error */
static int machine(const char *s)
{
	int digits = 0;

start:
	if (*s == '+' || *s == '-') { s++; goto intpart; }
intpart:
	if (*s >= '0' && *s <= '9') { s++; digits++; goto intpart; }
	if (*s == '.') { s++; goto frac; }
	goto end;
frac:
	if (*s >= '0' && *s <= '9') { s++; digits += 10; goto frac; }
end:
	if (*s == ' ') { s++; digits += 100; goto start; }
	return *s ? -(int)*s : digits;
}

static int same_label_names(int n)
{
	/* label names live in their own name space, per function */
	int end = n * 2, out = 1;
	struct end { int end; } e = {end};

	if (n)
		goto end;
	out = 7;
end:
	return e.end + out;
}

int main(void)
{
	static const char *const inputs[] = {"12", "-3.25", "+.5", "7 8 9", "1.2.3", "", "x", "-", "10 2.5"};
	int n;

	for (n = 0; n <= 3; n++) {
		printf("forward: %d %d\n", n, forward(n));
		printf("into_block: %d %d\n", n, into_block(n));
		printf("labels: %d %d\n", n, labels(n));
		printf("same_label_names: %d %d\n", n, same_label_names(n));
		sum += forward(n) + into_block(n) + labels(n) + same_label_names(n);
	}
	for (n = 0; n <= 6; n++) {
		printf("backward: %d %d\n", n, backward(n));
		printf("into_loop: %d %d\n", n, into_loop(n));
		sum += backward(n) + into_loop(n);
	}
	for (n = 0; n <= 130; n += 13) {
		printf("out_of_nested: %d %d\n", n, out_of_nested(n));
		sum += out_of_nested(n);
	}
	for (n = 0; n < 9; n++) {
		printf("machine: [%s] %d\n", inputs[n], machine(inputs[n]));
		sum += machine(inputs[n]);
	}
	printf("sum: %u\n", sum);
	return sum & 63;
}
