/* file-scope compound literals (static storage), literals as function arguments, designators */
int printf(const char *, ...);

struct pt { int x, y; };
struct box { struct pt lo, hi; const char *name; int tags[4]; };

/* file scope: static storage duration, constant initialisers, modifiable */
static int *counter = &(int){10};
static int *table = (int[]){3, 1, 4, 1, 5, 9, 2, 6};
static struct pt *origin = &(struct pt){.y = 7, .x = -7};
static struct box *gbox = &(struct box){{1, 2}, {3, 4}, "gbox", {[2] = 22}};
static const char *const *names = (const char *const[]){"zero", "one", "two", 0};
static double *dvals = (double[3]){[1] = 1.5};

static unsigned sum;

static int bump(void)
{
	return (*counter)++;
}

static int area(struct box b)
{
	return (b.hi.x - b.lo.x) * (b.hi.y - b.lo.y);
}

static int norm1(const struct pt *p)
{
	return (p->x < 0 ? -p->x : p->x) + (p->y < 0 ? -p->y : p->y);
}

static int total(const int *a, int n)
{
	int t = 0;

	while (n-- > 0)
		t += a[n];
	return t;
}

static struct pt mid(struct pt a, struct pt b)
{
	return (struct pt){(a.x + b.x) / 2, (a.y + b.y) / 2};
}

static void filescope(int n)
{
	int i, t = 0;

	for (i = 0; i < 8; i++)
		t = t * 3 + table[i];
	table[n & 7] += 1;			/* persists: static storage */
	origin->x += n;
	printf("filescope: %d %d %d %d %d\n", n, bump(), t, origin->x, origin->y);
	printf("gbox: %d %s %d %d %d %d\n", n, gbox->name, area(*gbox), gbox->tags[0], gbox->tags[2], gbox->tags[3]);
	gbox->hi.x += 1;
	for (i = 0; names[i]; i++)
		printf("names: %d %d %s\n", n, i, names[i]);
	printf("dvals: %d %a %a %a\n", n, dvals[0], dvals[1], dvals[2]);
	dvals[0] += 0.25;
	sum += t + origin->x;
}

static void args(int n)
{
	int a = area((struct box){{0, 0}, {n, n + 1}, "tmp", {0}});
	int b = area((struct box){.hi = {n + 2, 3}, .lo = {n, 1}});
	int c = norm1(&(struct pt){-n, n - 2});
	int d = total((int[]){n, n, n, 1}, 4);
	int e = total((int[5]){[3] = n, [1] = 2}, 5);
	struct pt m = mid((struct pt){0, n}, (struct pt){n * 4, n * 3});

	printf("args: %d %d %d %d %d %d %d %d\n", n, a, b, c, d, e, m.x, m.y);
	sum += a + b + c + d + e + m.x + m.y;
}

static void desig(int n)
{
	struct box *b = &(struct box){.name = "d", .tags = {[1] = n, [3] = n * 2}, .hi.y = 5, .lo = {.y = n}};
	int *a = (int[]){[4] = n, [0] = 1, 2};		/* 5 elements: 1 2 0 0 n */
	unsigned long cnt = sizeof (int[]){[4] = 0, [0] = 1, 2} / sizeof(int);

	printf("desig: %d %s %d %d %d %d %d %d %d %d\n", n, b->name, b->lo.x, b->lo.y, b->hi.x, b->hi.y, b->tags[0],
	    b->tags[1], b->tags[2], b->tags[3]);
	printf("desig_arr: %d %lu %d %d %d %d %d\n", n, cnt, a[0], a[1], a[2], a[3], a[4]);
	sum += b->tags[3] + a[4] + cnt;
}

int main(void)
{
	int n;

	for (n = 0; n <= 4; n++) {
		filescope(n);
		args(n);
		desig(n);
	}
	printf("sum: %u\n", sum);
	return sum & 63;
}
