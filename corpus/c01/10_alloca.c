/* __builtin_alloca: in loops, computed sizes, earlier blocks stay intact, together with VLAs */
int printf(const char *, ...);
void *memset(void *, int, unsigned long);

static unsigned sum;

static int check(const unsigned char *p, int n, int tag)
{
	int i, bad = 0;

	for (i = 0; i < n; i++)
		if (p[i] != (unsigned char)(tag + i))
			bad++;
	return bad;
}

static void fill(unsigned char *p, int n, int tag)
{
	int i;

	for (i = 0; i < n; i++)
		p[i] = (unsigned char)(tag + i);
}

static void loop(int count, int step)
{
	unsigned char *blk[8];
	int len[8];
	int i, j, bad = 0;

	for (i = 0; i < count; i++) {
		len[i] = 1 + i * step;
		blk[i] = __builtin_alloca(len[i]);
		fill(blk[i], len[i], i * 31);
		/* all earlier blocks must still hold their data */
		for (j = 0; j <= i; j++)
			bad += check(blk[j], len[j], j * 31);
	}
	for (i = 0; i < count; i++)
		for (j = i + 1; j < count; j++)
			if (blk[i] == blk[j])
				bad += 100;
	printf("loop: %d %d %d\n", count, step, bad);
	sum += bad + count * step;
}

static void computed(int n)
{
	unsigned long sz = (unsigned long)n * n + (n & 1 ? 3 : 17);
	long *p = __builtin_alloca(sz * sizeof(long));
	double *d = __builtin_alloca(sizeof(double) * (n + 1));
	unsigned long i;
	long t = 0;
	double u = 0;

	for (i = 0; i < sz; i++)
		p[i] = (long)i * n;
	for (i = 0; i <= (unsigned long)n; i++)
		d[i] = i * 0.5;
	for (i = 0; i < sz; i++)
		t += p[i];
	for (i = 0; i <= (unsigned long)n; i++)
		u += d[i];
	printf("computed: %d %lu %ld %a %d %d\n", n, sz, t, u, (int)((unsigned long)p % 8), (int)((unsigned long)d % 8));
	sum += (unsigned)t;
}

static void with_vla(int n)
{
	int a[n];
	char *p = __builtin_alloca(n + 2);
	int b[n + 1];
	char *q = __builtin_alloca(3 * n);
	int i, t = 0;

	for (i = 0; i < n; i++)
		a[i] = i + 1;
	memset(p, 'p', n + 2);
	for (i = 0; i <= n; i++)
		b[i] = 10 * i;
	memset(q, 'q', 3 * n);
	for (i = 0; i < n; i++)
		t += a[i] + b[i + 1] + p[i + 2] + q[3 * i + 2];
	printf("with_vla: %d %lu %lu %d\n", n, (unsigned long)sizeof a, (unsigned long)sizeof b, t);
	sum += t;
}

static int depth(int n)
{
	/* alloca in a recursive function: every frame has its own block */
	int *p = __builtin_alloca(sizeof(int) * (n + 1));
	int i, r;

	for (i = 0; i <= n; i++)
		p[i] = n * 100 + i;
	r = n > 0 ? depth(n - 1) : 0;
	for (i = 0; i <= n; i++)
		if (p[i] != n * 100 + i)
			return -1000;
	return r + p[n];
}

static void in_cond(int n)
{
	/* alloca evaluated only on one arm */
	char *p = n & 1 ? __builtin_alloca(16) : 0;
	int t = 0;

	if (p) {
		memset(p, n, 16);
		t = p[0] + p[15];
	}
	printf("in_cond: %d %d\n", n, t);
	sum += t;
}

int main(void)
{
	int n, m;

	for (n = 1; n <= 8; n++)
		for (m = 0; m <= 3; m++)
			loop(n, m * 7);
	for (n = 1; n <= 6; n++)
		computed(n);
	for (n = 1; n <= 5; n++)
		with_vla(n);
	for (n = 0; n <= 5; n++) {
		printf("depth: %d %d\n", n, depth(n));
		sum += depth(n);
	}
	for (n = 0; n <= 3; n++)
		in_cond(n);
	printf("sum: %u\n", sum);
	return sum & 63;
}
