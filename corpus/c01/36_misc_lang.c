/* enums, typedefs, sizeof/_Alignof, _Static_assert, _Generic, const locals, string/char/integer literal forms */
int printf(const char *, ...);
unsigned long strlen(const char *);

enum small { A, B, C = 10, D, E = C + D, F = -5, G };
enum big { BIG = 0x7fffffff, NEG = -2147483647 - 1 };
typedef enum small small_t;
typedef unsigned char byte;
typedef byte quad[4];
typedef int (*handler)(int);
typedef struct node { struct node *next; int val; } node_t;
typedef const char *cstr;

_Static_assert(sizeof(int) == 4, "int is 4 bytes");
_Static_assert(E == 21 && G == -4, "enum arithmetic");
_Static_assert(sizeof(quad) == 4 && _Alignof(double) == 8, "typedef size");
_Static_assert('a' == 97 && '\0' == 0 && '\x41' == 'A' && '\101' == 'A', "character constants");

static unsigned sum;

static int twice(int x) { return x * 2; }

static void enums(int n)
{
	small_t s = (small_t)(n % 3);
	enum small t = n & 1 ? D : F;
	enum { LOCAL1 = 100, LOCAL2 } loc = LOCAL2;
	int arr[E - C] = {0};			/* enumeration constants in constant expressions: 11 elements */

	arr[D - 1] = G;
	printf("enums: %d %d %d %d %d %d %lu %d %d\n", n, s, t, loc, s == B, t + 1, (unsigned long)(sizeof arr / sizeof arr[0]), arr[10], BIG + NEG);
	printf("enum_sizes: %lu %lu %lu\n", (unsigned long)sizeof(enum small), (unsigned long)sizeof A, (unsigned long)sizeof(enum big));
	sum += s + t + loc + arr[10];
}

static void typedefs(int n)
{
	quad q = {1, 2, 3, (byte)(250 + n * 2)};
	handler h = twice;
	node_t n2 = {0, n}, n1 = {&n2, n + 1};
	cstr names[2] = {"first", "second"};
	typedef long local_t;
	local_t v = (local_t)1 << (32 + n);
	const int k = n * 3;
	const int *pk = &k;
	int const *const cpk = pk;

	{
		typedef short local_t;		/* block-scope typedef shadows */
		local_t w = (local_t)(v >> 21);

		printf("typedefs: %d %u %d %d %s %ld %d %lu %d\n", n, q[3], h(n), n1.next->val + n1.val, names[n & 1], v, w,
		    (unsigned long)sizeof(local_t), *cpk + *pk);
		sum += q[3] + h(n) + w + *cpk;
	}
}

static void sizes(void)
{
	int i = 0;
	char c = 0;
	double d = 0;
	struct { char a; double b; char c; } pad;
	struct { char a; char b; short c; } tight;
	union { char a[5]; int b; } un;

	printf("sizeof_types: %lu %lu %lu %lu %lu %lu %lu %lu %lu\n", (unsigned long)sizeof(char), (unsigned long)sizeof(short), (unsigned long)sizeof(int),
	    (unsigned long)sizeof(long), (unsigned long)sizeof(long long), (unsigned long)sizeof(float), (unsigned long)sizeof(double),
	    (unsigned long)sizeof(void *), (unsigned long)sizeof(_Bool));
	printf("sizeof_exprs: %lu %lu %lu %lu %lu %lu %lu %lu\n", (unsigned long)sizeof i, (unsigned long)sizeof(c + c), (unsigned long)sizeof(c + d),
	    (unsigned long)sizeof(i + 1L), (unsigned long)sizeof 'a', (unsigned long)sizeof "abc", (unsigned long)sizeof(i++), (unsigned long)sizeof(char[3][5]));
	printf("sizeof_aggr: %lu %lu %lu %lu %d\n", (unsigned long)sizeof pad, (unsigned long)sizeof tight, (unsigned long)sizeof un, (unsigned long)sizeof sizeof i, i);
	printf("alignof: %lu %lu %lu %lu %lu %lu %lu\n", (unsigned long)_Alignof(char), (unsigned long)_Alignof(short), (unsigned long)_Alignof(int),
	    (unsigned long)_Alignof(long), (unsigned long)_Alignof(double), (unsigned long)_Alignof(node_t), (unsigned long)_Alignof(char[7]));
	sum += sizeof pad + sizeof un;
}

static void generic(void)
{
	char c = 0; short s = 0; unsigned u = 0; long l = 0; float f = 0; double d = 0; const char *p = ""; int arr[3] = {0};
	small_t e = A;

	printf("generic: %d %d %d %d %d %d %d %d\n",
	    _Generic(c, char: 1, signed char: 2, unsigned char: 3, default: 0),
	    _Generic(s, short: 1, int: 2, default: 0),
	    _Generic(u, int: 1, unsigned: 2, default: 0),
	    _Generic(l, long: 1, long long: 2, default: 0),
	    _Generic(f, float: 1, double: 2, default: 0),
	    _Generic(d + f, float: 1, double: 2, default: 0),
	    _Generic(p, char *: 1, const char *: 2, default: 0),
	    _Generic(arr, int *: 1, default: 0));
	printf("generic2: %d %d %d %d %d %d %d\n",
	    _Generic(c + c, char: 1, int: 2, default: 0),
	    _Generic('a', char: 1, int: 2, default: 0),
	    _Generic(1u + 1L, unsigned: 1, long: 2, unsigned long: 3, default: 0),
	    _Generic(sizeof c, unsigned long: 1, unsigned: 2, default: 0),
	    _Generic(&arr, int (*)[3]: 1, int **: 2, default: 0),
	    _Generic(twice, int (*)(int): 1, default: 0),
	    _Generic(e, small_t: 1, default: 0));	/* "enum small: 1" spelled with the tag is in 42 */
	sum += _Generic(1.0f, float: 5, default: 0);
}

static void literals(void)
{
	static const char cat[] = "abc" "def" /* comment between */ "\x67" "h";	/* "\x67" "h" must not merge into \x67h */
	static const char esc[] = "\a\b\f\n\r\t\v\\\'\"\?\0\101\x42\1019";		/* \101 then '9' */
	unsigned long i;

	printf("concat: %s %lu\n", cat, (unsigned long)sizeof cat);
	printf("escapes: %lu", (unsigned long)sizeof esc);
	for (i = 0; i < sizeof esc; i++)
		printf(" %d", esc[i]);
	printf("\n");
	printf("chars: %d %d %d %d %d %d %d %d\n", 'a', '\n', '\0', '\x7f', '\177', '\\', '\'', '"');
	printf("char_octal377: %d\n", '\377');		/* char is signed: -1 */
	printf("char_hexff: %d\n", '\xff');
	printf("char_hex80: %d %d\n", '\x80', '\200');
	printf("ints: %d %d %d %u %ld %lu %lld %llu\n", 0x1F, 017, 0, 0xffffffffu, 0x7fffffffffffffffL, 0xffffffffffffffffUL, -0x8000000000LL, 01777777777777777777777ULL);
	printf("suffix_sizes: %lu %lu %lu %lu %lu %lu %lu\n", (unsigned long)sizeof 1, (unsigned long)sizeof 1u, (unsigned long)sizeof 1l, (unsigned long)sizeof 1UL,
	    (unsigned long)sizeof 1ll, (unsigned long)sizeof 2147483648, (unsigned long)sizeof 0x80000000);
	printf("literal_types: %d %d %d %d\n", _Generic(2147483647, int: 1, long: 2, default: 0), _Generic(2147483648, int: 1, long: 2, default: 0),
	    _Generic(0x80000000, int: 1, unsigned: 2, long: 3, default: 0), _Generic(0xffffffffff, long: 1, unsigned long: 2, default: 0));
	printf("floats: %a %a %a %a %a %a\n", 1.5, 1e3, .5e-2, 0x1.8p1, 1.f, 0x.8p0);
	sum += strlen(cat) + sizeof esc;
}

int main(void)
{
	int n;

	for (n = 0; n <= 3; n++) {
		enums(n);
		typedefs(n);
	}
	sizes();
	generic();
	literals();
	printf("sum: %u\n", sum);
	return sum & 63;
}
