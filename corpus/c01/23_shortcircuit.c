/* && || ?: comma ! with side effects: which operands are evaluated, for all truth combinations */
int printf(const char *, ...);

static unsigned sum;
static int trace;

/* t(k, v): record that operand k was evaluated (decimal digit appended), yield v */
static int t(int k, int v)
{
	trace = trace * 10 + k;
	return v;
}

static void logic2(int a, int b)
{
	int r;

	trace = 0; r = t(1, a) && t(2, b); printf("and: %d %d %d %d\n", a, b, r, trace); sum += r + trace;
	trace = 0; r = t(1, a) || t(2, b); printf("or: %d %d %d %d\n", a, b, r, trace); sum += r + trace;
	trace = 0; r = !t(1, a) && !t(2, b); printf("nand: %d %d %d %d\n", a, b, r, trace); sum += r + trace;
	trace = 0; r = !(t(1, a) || t(2, b)); printf("nor: %d %d %d %d\n", a, b, r, trace); sum += r + trace;
	trace = 0; if (t(1, a) && t(2, b)) r = 10; else r = 20; printf("if_and: %d %d %d %d\n", a, b, r, trace);
	trace = 0; if (t(1, a) || t(2, b)) r = 10; else r = 20; printf("if_or: %d %d %d %d\n", a, b, r, trace);
	trace = 0; r = 0; while (t(1, a) && t(2, b) && r < 2) r++; printf("while_and: %d %d %d %d\n", a, b, r, trace);
	sum += r + trace;
}

static void logic3(int a, int b, int c)
{
	int r;

	trace = 0; r = t(1, a) && t(2, b) && t(3, c); printf("and3: %d %d %d %d %d\n", a, b, c, r, trace); sum += r + trace;
	trace = 0; r = t(1, a) || t(2, b) || t(3, c); printf("or3: %d %d %d %d %d\n", a, b, c, r, trace); sum += r + trace;
	trace = 0; r = t(1, a) && t(2, b) || t(3, c); printf("and_or: %d %d %d %d %d\n", a, b, c, r, trace); sum += r + trace;
	trace = 0; r = t(1, a) || t(2, b) && t(3, c); printf("or_and: %d %d %d %d %d\n", a, b, c, r, trace); sum += r + trace;
	trace = 0; r = (t(1, a) || t(2, b)) && t(3, c); printf("paren_or_and: %d %d %d %d %d\n", a, b, c, r, trace); sum += r + trace;
	trace = 0; r = t(1, a) && (t(2, b) || t(3, c)); printf("and_paren_or: %d %d %d %d %d\n", a, b, c, r, trace); sum += r + trace;
	trace = 0; r = t(1, a) ? t(2, b) : t(3, c); printf("cond: %d %d %d %d %d\n", a, b, c, r, trace); sum += r + trace;
	trace = 0; r = t(1, a) ? t(2, b) ? 100 : t(4, 200) : t(3, c) ? t(5, 300) : 400;
	printf("cond_nested: %d %d %d %d %d\n", a, b, c, r, trace); sum += r + trace;
	trace = 0; r = (t(1, a) ? t(2, b) : t(3, c)) ? t(4, 7) : t(5, 8);
	printf("cond_cond: %d %d %d %d %d\n", a, b, c, r, trace); sum += r + trace;
	trace = 0; r = t(1, a) && t(2, b) ? t(3, c) || t(4, 0) : t(5, c) && t(6, 1);
	printf("cond_logic: %d %d %d %d %d\n", a, b, c, r, trace); sum += r + trace;
}

static void values(int v)
{
	/* results of logical operators are int 0/1 whatever the operand values */
	int a = v && 5, b = v || 0, c = !v, d = !!v, e = !!!v;
	double f = v * 0.5;
	const char *p = v ? "x" : 0;
	int g = f && p, h = f || p, i = !f + !p * 2;

	printf("values: %d %d %d %d %d %d %d %d %d\n", v, a, b, c, d, e, g, h, i);
	printf("sizes: %lu %lu %lu\n", (unsigned long)sizeof(v && v), (unsigned long)sizeof !f, (unsigned long)sizeof(p || f));
	sum += a + b * 2 + c * 4 + d * 8 + e * 16 + g * 32 + h * 64 + i;
}

static void comma(int n)
{
	int x = 0, y, z;

	y = (x = n, x += 2, x * 3);		/* value of the last operand, sequenced left to right */
	z = (t(7, 0), t(8, n));
	for (x = 0, z = 10; x < n; x++, z--)
		y += (x, z);
	trace = 0;
	x = (t(1, 1), t(2, 0)) ? (t(3, 5), t(4, 6)) : (t(5, 7), t(6, 8));
	printf("comma: %d %d %d %d %d\n", n, x, y, z, trace);
	sum += x + y + z + trace;
}

static void chained(int a, int b, int c)
{
	/* relational results used as ints */
	int r1 = a < b < c;			/* (a < b) < c */
	int r2 = a == b == c;
	int r3 = (a < b) + (b < c) + (a < c);
	int r4 = (a > b) - (a < b);
	int r5 = a < b != b < c;
	int r6 = (a <= b) * 4 | (b >= c) * 2 | (a != c);
	int r7 = -(a < b) & 0xf0;

	printf("chained: %d %d %d %d %d %d %d %d %d %d\n", a, b, c, r1, r2, r3, r4, r5, r6, r7);
	sum += r1 + r2 * 2 + r3 * 4 + r4 + r5 * 16 + r6 + r7;
}

static void sidefx(int n)
{
	int i = n, j = 0, k = 0, m = 0;

	if (i++ > 1 && j++ == 0)
		k += 1;
	if (i-- < 0 || ++j > 1)
		k += 10;
	k += (i > 1 ? j++ : m++) ? 100 : 1000;
	k += (i > 1 ? ++j : ++m) ? 5 : 7;
	printf("sidefx: %d %d %d %d %d\n", n, i, j, k, m);
	sum += i + j + k + m;
}

int main(void)
{
	int a, b, c;

	for (a = 0; a <= 1; a++)
		for (b = 0; b <= 1; b++) {
			logic2(a * 3, b * -2);
			for (c = 0; c <= 1; c++)
				logic3(a, b * 2, c * 5);
		}
	for (a = -1; a <= 2; a++) {
		values(a);
		comma(a + 1);
		sidefx(a);
	}
	for (a = 0; a <= 2; a++)
		for (b = 0; b <= 2; b++)
			for (c = 0; c <= 2; c++)
				chained(a, b, c);
	printf("sum: %u\n", sum);
	return sum & 63;
}
