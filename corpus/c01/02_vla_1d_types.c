/* 1-D VLAs with struct, double, char, pointer and short element types */
int printf(const char *, ...);

struct s3 { char c[3]; };
struct pt { int x; double y; };
struct big { long a, b, c; short d; };

static unsigned sum;

static void structs(int n)
{
	struct pt p[n];
	struct s3 q[n + 1];
	struct big r[n];
	int i;
	double t = 0;
	long u = 0;

	for (i = 0; i < n; i++) {
		p[i].x = i + 1;
		p[i].y = (i + 1) * 0.5;
		r[i].a = i;
		r[i].b = i * 2;
		r[i].c = i * 3;
		r[i].d = (short)-i;
	}
	for (i = 0; i <= n; i++) {
		q[i].c[0] = (char)i;
		q[i].c[1] = (char)(i + 1);
		q[i].c[2] = (char)(i + 2);
	}
	for (i = 0; i < n; i++) {
		t += p[i].x * p[i].y;
		u += r[i].a + r[i].b + r[i].c + r[i].d + q[i].c[2] + q[i + 1].c[0];
	}
	printf("structs: %d %lu %lu %lu %a %ld\n", n, (unsigned long)sizeof p, (unsigned long)sizeof q,
	    (unsigned long)sizeof r, t, u);
	sum += (unsigned)u + sizeof p + sizeof q + sizeof r;
}

static void doubles(int n)
{
	double d[n];
	float f[n];
	int i;
	double t = 0;

	for (i = 0; i < n; i++) {
		d[i] = i * 0.25;
		f[i] = (float)(n - i);
	}
	for (i = 0; i < n; i++)
		t += d[i] * f[i];
	printf("doubles: %d %lu %lu %a\n", n, (unsigned long)sizeof d, (unsigned long)sizeof f, t);
	sum += (unsigned)(t * 4);
}

static void chars(int n)
{
	char s[n + 1];
	short h[n];
	const char *ptr[n];
	int i, t = 0;

	for (i = 0; i < n; i++) {
		s[i] = (char)('a' + i);
		h[i] = (short)(i * 1000 - 2000);
		ptr[i] = &s[n - 1 - i];
	}
	s[n] = 0;
	for (i = 0; i < n; i++)
		t += h[i] + *ptr[i];
	printf("chars: %d %lu %lu %lu %s %d\n", n, (unsigned long)sizeof s, (unsigned long)sizeof h,
	    (unsigned long)sizeof ptr, s, t);
	sum += t & 0xfff;
}

static void copy(int n)
{
	struct pt a[n], b[n];
	int i, t = 0;

	for (i = 0; i < n; i++) {
		a[i].x = i * 7;
		a[i].y = i;
	}
	for (i = 0; i < n; i++)
		b[n - 1 - i] = a[i];
	for (i = 0; i < n; i++)
		t = t * 3 + b[i].x + (int)b[i].y;
	printf("copy: %d %d\n", n, t);
	sum += t;
}

int main(void)
{
	int n;

	for (n = 1; n <= 5; n++)
		structs(n);
	for (n = 1; n <= 5; n++)
		doubles(n);
	for (n = 1; n <= 5; n++)
		chars(n);
	for (n = 1; n <= 5; n++)
		copy(n);
	printf("sum: %u\n", sum);
	return sum & 63;
}
