/* bit-fields in ordinary code: packed counters, signed/unsigned fields, width 1, assignment results, by-value passing */
int printf(const char *, ...);

struct flags { unsigned ready : 1; unsigned mode : 3; unsigned count : 12; int delta : 5; _Bool on : 1; unsigned : 0; unsigned next : 9; };
struct sgn { int a : 1; int b : 2; int c : 7; unsigned d : 7; int e : 31; unsigned f : 32; };
struct mixed { char c; unsigned lo : 4; unsigned hi : 4; short s; int wide : 20; unsigned top : 12; long l; };
struct date { unsigned day : 5; unsigned month : 4; unsigned year : 12; unsigned dow : 3; };

static unsigned sum;

static void counters(int n)
{
	struct flags f = {0};
	int i;

	for (i = 0; i < n; i++) {
		f.ready = !f.ready;
		f.mode++;			/* wraps modulo 8 */
		f.count += 1000;		/* wraps modulo 4096 */
		f.delta = (i & 15) - 8;		/* -8..7 fits in 5 signed bits */
		f.on = i;			/* _Bool: nonzero -> 1 */
		f.next -= 3;			/* unsigned wrap modulo 512 */
	}
	printf("counters: %d %u %u %u %d %d %u\n", n, f.ready, f.mode, f.count, f.delta, f.on, f.next);
	sum += f.ready + f.mode + f.count + f.delta + f.on + f.next;
}

static void signs(int v)
{
	struct sgn s = {0};
	int r1, r2, r3;

	s.a = v & 1 ? -1 : 0;			/* a 1-bit signed field holds 0 or -1 */
	s.b = (v & 3) - 2;			/* -2..1 */
	s.c = v * 9 - 64;			/* -64..63 for v in 0..14 */
	s.d = v * 9;
	s.e = -v * 1000000;
	s.f = 0u - v;
	r1 = (s.c = -3);			/* value of an assignment is the stored field value */
	r2 = (s.d = 127);
	r3 = (s.b = 1) + (s.a = -1);
	printf("signs: %d %d %d %d %u %d %u %d %d %d\n", v, s.a, s.b, s.c, s.d, s.e, s.f, r1, r2, r3);
	printf("promote: %d %d %d %d\n", v, s.d - 200 < 0, s.f - 1 > 0, -s.d < 0);	/* narrow unsigned fields promote to int */
	sum += s.a + s.b + s.c + s.d + s.e + s.f;
}

static struct mixed bump(struct mixed m, int k)
{
	m.lo += k;
	m.hi -= k;
	m.wide *= -2;
	m.top ^= 0xfff;
	m.c++;
	m.s--;
	m.l += m.lo;
	return m;
}

static int weight(struct flags f) { return f.ready + f.mode * 2 + f.count * 3 + f.delta + f.on + f.next; }

static void byvalue(int k)
{
	struct mixed m = {'a', 3, 12, -5, 100000, 0x123, 1L << 40};
	struct mixed r = bump(m, k);
	struct flags f = {1, 5, 4000, -7, 1, 300};

	printf("byvalue: %d %c %u %u %d %d %#x %ld\n", k, r.c, r.lo, r.hi, r.s, r.wide, r.top, r.l - (1L << 40));
	printf("orig: %d %c %u %u %d %d %#x\n", k, m.c, m.lo, m.hi, m.s, m.wide, m.top);
	printf("weight: %d %d %d\n", k, weight(f), bump(r, 1).wide);
	sum += r.lo + r.hi + r.wide + r.top + weight(f);
}

static void dates(int n)
{
	struct date d = {28, 2, 2000 + n, 1};
	int i;

	for (i = 0; i < 5; i++) {
		int leap = d.year % 4 == 0 && (d.year % 100 != 0 || d.year % 400 == 0);
		int len = d.month == 2 ? 28 + leap : 30 + ((d.month + (d.month > 7)) & 1);

		if (d.day == (unsigned)len) {
			d.day = 1;
			d.month = d.month == 12 ? 1 : d.month + 1;
		} else
			d.day++;
		d.dow = (d.dow + 1) % 7;
	}
	printf("dates: %d %u %u %u %u %lu\n", n, d.day, d.month, d.year, d.dow, (unsigned long)sizeof d);
	sum += d.day + d.month;
}

static void ops(int v)
{
	struct flags f = {0, v & 7, v * 100, v - 4, v & 2, v * 50};
	unsigned a = f.mode << 2 | f.ready;
	int c = f.delta * f.mode;
	int d = f.count > 300 ? f.count / 7 : f.count % 7;
	int e = (f.mode += 5, f.mode);		/* compound assignment wraps in the field */
	int g = f.count++ + f.next--;
	int h = ++f.delta;

	printf("ops: %d %u %d %d %d %d %d %u %u\n", v, a, c, d, e, g, h, f.count, f.next);
	sum += a + c + d + e + g + h;
}

int main(void)
{
	int n;

	for (n = 0; n <= 12; n += 3)
		counters(n);
	for (n = 0; n <= 14; n += 2)
		signs(n);
	for (n = 0; n <= 3; n++) {
		byvalue(n);
		dates(n);
	}
	for (n = 0; n <= 7; n++)
		ops(n);
	printf("sizes: %lu %lu %lu\n", (unsigned long)sizeof(struct flags), (unsigned long)sizeof(struct sgn), (unsigned long)sizeof(struct mixed));
	printf("sum: %u\n", sum);
	return sum & 63;
}
