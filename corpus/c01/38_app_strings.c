/* small applications: string reversal, strtol-like parser, CRC-32 table, base64 encoder/decoder */
int printf(const char *, ...);
unsigned long strlen(const char *);
int strcmp(const char *, const char *);

static unsigned sum;

static void reverse(char *s)
{
	char *e = s + strlen(s);

	while (e - s > 1) {
		char t = *s;

		*s++ = *--e;
		*e = t;
	}
}

static void reverse_words(char *s)
{
	char *p = s, *q;

	reverse(s);
	while (*p) {
		char save;

		while (*p == ' ')
			p++;
		q = p;
		while (*q && *q != ' ')
			q++;
		save = *q;
		*q = 0;
		reverse(p);
		*q = save;
		p = q;
	}
}

/* like strtol for bases 2..36 and 0 (auto), without overflow: stops before a digit that would overflow; sets *end */
static long parse(const char *s, const char **end, int base)
{
	const long max = 0x7fffffffffffffffL;
	long v = 0;
	int neg = 0, any = 0, d;
	const char *start = s;

	while (*s == ' ' || *s == '\t')
		s++;
	if (*s == '-' || *s == '+')
		neg = *s++ == '-';
	if ((base == 0 || base == 16) && s[0] == '0' && (s[1] == 'x' || s[1] == 'X')) {
		s += 2;
		base = 16;
	} else if (base == 0)
		base = *s == '0' ? 8 : 10;
	for (;; s++) {
		if (*s >= '0' && *s <= '9') d = *s - '0';
		else if (*s >= 'a' && *s <= 'z') d = *s - 'a' + 10;
		else if (*s >= 'A' && *s <= 'Z') d = *s - 'A' + 10;
		else break;
		if (d >= base || v > (max - d) / base)
			break;
		v = v * base + d;
		any = 1;
	}
	*end = any ? s : start;
	return neg ? -v : v;
}

static unsigned crc_table[256];

static void crc_init(void)
{
	unsigned n, c;
	int k;

	for (n = 0; n < 256; n++) {
		c = n;
		for (k = 0; k < 8; k++)
			c = c & 1 ? 0xedb88320u ^ (c >> 1) : c >> 1;
		crc_table[n] = c;
	}
}

static unsigned crc32(const void *buf, unsigned long len)
{
	const unsigned char *p = buf;
	unsigned c = 0xffffffffu;

	while (len--)
		c = crc_table[(c ^ *p++) & 0xff] ^ (c >> 8);
	return c ^ 0xffffffffu;
}

static const char b64[] = "ABCDEFGHIJKLMNOPQRSTUVWXYZabcdefghijklmnopqrstuvwxyz0123456789+/";

static int b64_encode(char *out, const unsigned char *in, int n)
{
	int i, o = 0;

	for (i = 0; i + 2 < n; i += 3) {
		unsigned v = in[i] << 16 | in[i + 1] << 8 | in[i + 2];

		out[o++] = b64[v >> 18];
		out[o++] = b64[v >> 12 & 63];
		out[o++] = b64[v >> 6 & 63];
		out[o++] = b64[v & 63];
	}
	if (i < n) {
		unsigned v = in[i] << 16 | (i + 1 < n ? in[i + 1] << 8 : 0);

		out[o++] = b64[v >> 18];
		out[o++] = b64[v >> 12 & 63];
		out[o++] = i + 1 < n ? b64[v >> 6 & 63] : '=';
		out[o++] = '=';
	}
	out[o] = 0;
	return o;
}

static int b64_decode(unsigned char *out, const char *in)
{
	unsigned acc = 0;
	int bits = 0, o = 0, k;

	for (; *in && *in != '='; in++) {
		for (k = 0; k < 64 && b64[k] != *in; k++)
			;
		acc = acc << 6 | k;
		bits += 6;
		if (bits >= 8) {
			bits -= 8;
			out[o++] = (unsigned char)(acc >> bits);
		}
	}
	return o;
}

int main(void)
{
	static const char *const nums[] = {"0", "42", "  -17x", "+0x1fZ", "0755", "08", "zz", "-", "9223372036854775807", "9223372036854775808", "1010102", "-0X", "7fffffffffffffff"};
	static const int bases[] = {10, 0, 16, 2, 36};
	static const char text[] = "The quick brown fox jumps over the lazy dog";
	char buf[64], enc[64];
	unsigned char dec[64];
	int i, j, n;

	for (i = 0; i <= 5; i++) {
		for (j = 0; j < i; j++)
			buf[j] = (char)('a' + j);
		buf[i] = 0;
		reverse(buf);
		printf("reverse: %d [%s]\n", i, buf);
	}
	for (i = 0; text[i]; i++)
		buf[i] = text[i];
	buf[i] = 0;
	reverse_words(buf);
	printf("reverse_words: [%s]\n", buf);
	for (i = 0; i < (int)(sizeof nums / sizeof nums[0]); i++)
		for (j = 0; j < 5; j++) {
			const char *end;
			long v = parse(nums[i], &end, bases[j]);

			printf("parse: [%s] %d %ld %d\n", nums[i], bases[j], v, (int)(end - nums[i]));
			sum += (unsigned)v + (unsigned)(end - nums[i]);
		}
	crc_init();
	printf("crc_table: %#x %#x %#x %#x\n", crc_table[0], crc_table[1], crc_table[128], crc_table[255]);
	for (n = 0; n <= 43; n += (n < 4 ? 1 : 13)) {
		unsigned c = crc32(text, n);

		printf("crc32: %d %#010x\n", n, c);
		sum += c;
	}
	printf("crc32_check: %#x\n", crc32("123456789", 9));
	for (n = 0; n <= 10; n++) {
		int len = b64_encode(enc, (const unsigned char *)text + n, n);
		int back = b64_decode(dec, enc);

		dec[back] = 0;
		printf("base64: %d %d [%s] %d [%s]\n", n, len, enc, back, (char *)dec);
		sum += len + back + enc[len ? len - 1 : 0];
	}
	printf("sum: %u\n", sum);
	return sum & 63;
}
