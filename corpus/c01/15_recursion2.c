/* recursion with structs by value, per-frame local arrays, tree walk, permutations, flood fill */
int printf(const char *, ...);

struct state { int depth; long acc; short trail[6]; };
struct node { int key; struct node *left, *right; };

static unsigned sum;
static struct node pool[16];
static int npool;

static struct state descend(struct state s, int n)
{
	if (n == 0)
		return s;
	s.trail[s.depth % 6] = (short)(n * 11);
	s.depth++;
	s.acc = s.acc * 3 + n;
	s = descend(s, n - 1);
	s.acc += s.trail[0];
	return s;
}

static int frames(int n, int *parent)
{
	/* every frame owns a distinct array; parent's array must be unchanged after the call */
	int mine[4];
	int i, r = 0;

	for (i = 0; i < 4; i++)
		mine[i] = n * 10 + i;
	if (parent)
		r = (mine != parent);
	if (n > 0)
		r += frames(n - 1, mine);
	for (i = 0; i < 4; i++)
		if (mine[i] != n * 10 + i)
			r += 1000;
	return r;
}

static struct node *insert(struct node *t, int key)
{
	if (!t) {
		t = &pool[npool++];
		t->key = key;
		t->left = t->right = 0;
	} else if (key < t->key)
		t->left = insert(t->left, key);
	else
		t->right = insert(t->right, key);
	return t;
}

static int height(const struct node *t)
{
	int l, r;

	if (!t)
		return 0;
	l = height(t->left);
	r = height(t->right);
	return 1 + (l > r ? l : r);
}

static void inorder(const struct node *t, int depth, long *acc)
{
	if (!t)
		return;
	inorder(t->left, depth + 1, acc);
	*acc = *acc * 7 + t->key * 10 + depth;
	inorder(t->right, depth + 1, acc);
}

static int count_leaves(const struct node *t)
{
	if (!t)
		return 0;
	if (!t->left && !t->right)
		return 1;
	return count_leaves(t->left) + count_leaves(t->right);
}

static int nperm;
static long permsig;

static void permute(char *s, int k, int n)
{
	int i;
	char c;

	if (k == n) {
		nperm++;
		for (i = 0; i < n; i++)
			permsig = (permsig * 5 + s[i] * nperm) % 1000003;
		return;
	}
	for (i = k; i < n; i++) {
		c = s[k]; s[k] = s[i]; s[i] = c;
		permute(s, k + 1, n);
		c = s[k]; s[k] = s[i]; s[i] = c;
	}
}

static int flood(char g[6][6], int r, int c)
{
	if (r < 0 || r >= 6 || c < 0 || c >= 6 || g[r][c] != '.')
		return 0;
	g[r][c] = '#';
	return 1 + flood(g, r + 1, c) + flood(g, r - 1, c) + flood(g, r, c + 1) + flood(g, r, c - 1);
}

int main(void)
{
	int n, i;

	for (n = 0; n <= 7; n++) {
		struct state s0 = {0};
		struct state s = descend(s0, n);

		printf("descend: %d %d %ld %d %d\n", n, s.depth, s.acc, s.trail[0], s.trail[5]);
		sum += (unsigned)s.acc + s.depth;
	}
	for (n = 0; n <= 6; n++) {
		printf("frames: %d %d\n", n, frames(n, 0));
		sum += frames(n, 0);
	}
	for (n = 1; n <= 12; n += 1) {
		struct node *root = 0;
		long acc = 0;

		npool = 0;
		for (i = 0; i < n; i++)
			root = insert(root, (i * 7 + 3) % 13);
		inorder(root, 0, &acc);
		printf("tree: %d %d %d %ld\n", n, height(root), count_leaves(root), acc);
		sum += height(root) * 5 + count_leaves(root) + (unsigned)acc;
	}
	for (n = 1; n <= 5; n++) {
		char s[8] = "abcde";

		nperm = 0;
		permsig = 0;
		permute(s, 0, n);
		printf("permute: %d %d %ld %s\n", n, nperm, permsig, s);
		sum += nperm + (unsigned)permsig;
	}
	for (n = 0; n <= 3; n++) {
		char g[6][6] = {"..#...", "..#.#.", "###.#.", "....#.", ".####.", "......"};

		int f1 = flood(g, n, n);
		int f2 = flood(g, 0, 0);

		printf("flood: %d %d %d\n", n, f1, f2);
		sum += g[5][5];
	}
	printf("sum: %u\n", sum);
	return sum & 63;
}
