/* __func__: in main and other functions, sizeof, indexing, as array argument, in nested blocks, static/recursive */
int printf(const char *, ...);
unsigned long strlen(const char *);
int strcmp(const char *, const char *);

static unsigned sum;

static unsigned hash(const char *s)
{
	unsigned h = 5381;

	while (*s)
		h = h * 33 + (unsigned char)*s++;
	return h;
}

static void a(void)
{
	printf("name: %s %lu %lu\n", __func__, (unsigned long)sizeof __func__, strlen(__func__));
	sum += sizeof __func__;
}

static void longer_function_name_with_digits_123(int n)
{
	const char *p = __func__;
	int i, up = 0;

	for (i = 0; __func__[i]; i++)
		if (__func__[i] == '_')
			up++;
	printf("name: %s %lu %d %c %c\n", p, (unsigned long)sizeof __func__, up, __func__[n], *(__func__ + n + 1));
	sum += up + __func__[n];
}

static int same(void)
{
	/* every use inside one function designates the same array */
	const char *p = __func__;
	const char *q;

	{
		q = __func__;
	}
	return (p == q) + 2 * (strcmp(p, "same") == 0) + 4 * (sizeof __func__ == 5);
}

static int rec(int n)
{
	if (n == 0)
		return (int)sizeof __func__;
	return rec(n - 1) + __func__[n % 3];
}

static const char *ret_name(void) { return __func__; }

static unsigned long arr_param(const char s[], unsigned long n) { return hash(s) % 1000 + n; }

static void copy(void)
{
	char buf[sizeof __func__ + 1];
	unsigned long i;

	buf[sizeof __func__] = 0;

	for (i = 0; i < sizeof __func__; i++)
		buf[i] = __func__[sizeof __func__ - 1 - i];
	/* buf[0] is the NUL */
	printf("copy: %d %s %lu\n", buf[0], buf + 1, (unsigned long)sizeof buf);
	sum += buf[1];
}

static void f_(void) { printf("name: %s %lu\n", __func__, (unsigned long)sizeof __func__); }
static void _(void) { printf("name: %s %lu\n", __func__, (unsigned long)sizeof __func__); }

struct s { int main; };

int main(void)
{
	struct s v = {3};
	int main_local = v.main;
	int n;

	printf("name: %s %lu\n", __func__, (unsigned long)sizeof __func__);
	a();
	for (n = 0; n <= 3; n++)
		longer_function_name_with_digits_123(n);
	printf("same: %d\n", same());
	for (n = 0; n <= 4; n++) {
		printf("rec: %d %d\n", n, rec(n));
		sum += rec(n);
	}
	printf("ret_name: %s %d\n", ret_name(), ret_name() == ret_name());
	printf("arr_param: %lu\n", arr_param(__func__, sizeof __func__));
	copy();
	f_();
	_();
	for (n = 0; n < (int)sizeof __func__; n++)
		printf("chars: %d %d\n", n, __func__[n]);
	printf("generic: %d\n", _Generic(&__func__[0], const char *: 1, char *: 2, default: 3));
	printf("hash: %u\n", hash(__func__) % 1000);
	sum += hash(__func__) + main_local;
	printf("sum: %u\n", sum);
	return sum & 63;
}
