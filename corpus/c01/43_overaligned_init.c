/* initialisation, zero fill and copies of automatic objects whose type is aligned to 16, 32 and 64 bytes */
int printf(const char *, ...);
void *memset(void *, int, unsigned long);

struct a16 { char c; _Alignas(16) int m; int k; };
struct a32 { short a; _Alignas(32) char b[3]; char z; };
struct a64 { _Alignas(64) long first; char rest[9]; };
union u16 { _Alignas(16) char c[20]; long l; };
struct nest { char pre; struct a16 in; char post; };

static int al(const void *p, unsigned long a) { return (unsigned long)p % a == 0; }

static unsigned total(const void *q, unsigned long n)
{
	const unsigned char *p = q;
	unsigned t = 0;

	while (n-- > 0)
		t = t * 31 + *p++;
	return t;
}

static void dirty(int n)
{
	char junk[512];

	memset(junk, 0xa5 + n, sizeof junk);
	printf("dirty %u\n", total(junk, sizeof junk));
}

static void partial(int n)
{
	struct a16 x = {n};
	struct a32 y = {.b = {1, 2}};
	struct a64 z = {.rest = {[8] = n}};
	union u16 u = {{n, n + 1}};
	struct nest s = {.in = {.k = n}};
	struct a16 arr[3] = {[1] = {.m = n}};
	_Alignas(32) int w[9] = {n};

	printf("partial al: %d %d %d %d %d %d %d\n", al(&x, 16), al(&y, 32), al(&z, 64), al(&u, 16), al(&s, 16), al(arr, 16), al(w, 32));
	printf("partial x: %d %d %d\n", x.c, x.m, x.k);
	printf("partial y: %d %d %d %d %d\n", y.a, y.b[0], y.b[1], y.b[2], y.z);
	printf("partial z: %ld %d %d\n", z.first, z.rest[0], z.rest[8]);
	printf("partial u: %d %d %d %d\n", u.c[0], u.c[1], u.c[2], u.c[19]);
	printf("partial s: %d %d %d %d %d\n", s.pre, s.in.c, s.in.m, s.in.k, s.post);
	printf("partial arr: %d %d %d %d %d %d\n", arr[0].c, arr[0].m, arr[1].m, arr[1].k, arr[2].c, arr[2].k);
	printf("partial w: %d %d %d\n", w[0], w[1], w[8]);
	printf("partial sizes: %lu %lu %lu %lu %lu\n", (unsigned long)sizeof x, (unsigned long)sizeof y, (unsigned long)sizeof z, (unsigned long)sizeof u, (unsigned long)sizeof s);
}

/* filled through a pointer: passing or returning these types by value runs into the type-descriptor defect recorded under C08 */
static void mk16(struct a16 *p, int n) { struct a16 r = {n, n + 1, n + 2}; *p = r; }
static void mk64(struct a64 *p, int n) { struct a64 r = {n, {1, 2, 3, 4, 5, 6, 7, 8, (char)n}}; *p = r; }

static void copies(int n)
{
	struct a16 a, b, c[2];
	struct a64 p, q;
	struct a32 y = {n, {3, 4, 5}, 6}, y2;
	union u16 u = {{9, 8, 7, 6, 5, 4, 3, 2, 1, 0, 1, 2, 3, 4, 5, 6, 7, 8, 9, (char)n}}, v;

	mk16(&a, n);
	mk64(&p, n);
	memset(&b, 0xee, sizeof b);
	memset(c, 0xee, sizeof c);
	memset(&q, 0xee, sizeof q);
	memset(&y2, 0xee, sizeof y2);
	memset(&v, 0xee, sizeof v);
	b = a;
	c[1] = b;
	c[0] = c[1];
	q = p;
	y2 = y;
	v = u;
	printf("copies a16: %d %d %d | %d %d %d | %d %d %d\n", b.c, b.m, b.k, c[0].c, c[0].m, c[0].k, c[1].c, c[1].m, c[1].k);
	printf("copies a64: %ld %d %d %u\n", q.first, q.rest[0], q.rest[8], total(q.rest, sizeof q.rest));
	printf("copies a32: %d %d %d %d %d\n", y2.a, y2.b[0], y2.b[1], y2.b[2], y2.z);
	printf("copies u16: %u\n", total(v.c, sizeof v.c));
}

int main(void)
{
	int n;

	for (n = 1; n < 4; n++) {
		dirty(n);
		partial(n);
		dirty(n + 1);
		copies(n);
	}
	return 0;
}
