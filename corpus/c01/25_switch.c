/* switch: in loops with break/continue, fallthrough, default in the middle, negative and sparse cases, no match */
int printf(const char *, ...);

static unsigned sum;

static int classify(int v)
{
	switch (v) {
	case -3: return 30;
	case -1: return 10;
	case 0: return 0;
	case 1: case 2: case 3: return 123;
	case 100: return 100;
	default: return -1;
	case 7: return 7;		/* after default */
	}
}

static int fall(int v)
{
	int r = 0;

	switch (v) {
	case 0: r += 1;
	case 1: r += 10;
	case 2: r += 100;
		break;
	case 3: r += 1000;
	default: r += 10000;		/* default in the middle, falls into case 4 */
	case 4: r += 100000;
		break;
	case 5: r += 1000000;
	}
	return r;
}

static int loop_mix(int n)
{
	/* break leaves the switch, continue continues the loop */
	int i, r = 0;

	for (i = 0; i < n; i++) {
		switch (i % 5) {
		case 0:
			r += 1;
			continue;	/* skips the r += 1000 below */
		case 1:
			r += 10;
			break;
		case 2:
			if (i > 6)
				break;
			r += 100;
			/* fallthrough */
		case 3:
			r += 3;
			break;
		default:
			if (i > 10)
				goto done;
			continue;
		}
		r += 1000;
	}
done:
	return r * 100 + i;
}

static int while_in_switch(int v)
{
	int r = 0;

	switch (v & 3) {
	case 0:
		while (r < 5) {
			r++;
			if (r == 3)
				break;		/* leaves the while only */
		}
		r += 10;
		break;
	case 1:
		do {
			r += 2;
			if (r > 6)
				continue;	/* goes to the condition */
			r += 1;
		} while (r < 10);
		break;
	case 2: {
		int k;

		for (k = 0; k < 4; k++) {
			if (k == 2)
				continue;
			r += k;
		}
	}
		/* fallthrough */
	case 3:
		r += 100;
	}
	return r;
}

static int nomatch(int v)
{
	int r = 5;

	switch (v) {		/* no default: nothing executes when nothing matches */
	case 10: r = 1; break;
	case 20: r = 2; break;
	}
	switch (v)		/* body is a single labelled statement */
	case 3: r += 100;
	switch (v) {		/* empty */
	}
	switch (v) {
		r = -999;	/* unreachable statement before the first label */
	case 4:
		r += 1000;
	}
	return r;
}

static int sparse(long long v)
{
	switch (v) {
	case -9000000000LL: return 1;
	case -2147483648LL: return 2;
	case -1: return 3;
	case 0: return 4;
	case 2147483647: return 5;
	case 2147483648LL: return 6;
	case 4294967295LL: return 7;
	case 4294967296LL: return 8;
	case 0x7fffffffffffffffLL: return 9;
	case 1000: case 2000: case 3000: return 10;
	}
	return 0;
}

int main(void)
{
	static const long long sv[] = {-9000000000LL, -2147483648LL, -1, 0, 2147483647, 2147483648LL, 4294967295LL,
	    4294967296LL, 0x7fffffffffffffffLL, 1000, 2000, 3000, 1, -2, 4294967297LL, -9000000001LL};
	int v;

	for (v = -4; v <= 8; v++) {
		printf("classify: %d %d\n", v, classify(v));
		sum += classify(v);
	}
	printf("classify: 100 %d\n", classify(100));
	for (v = -1; v <= 6; v++) {
		printf("fall: %d %d\n", v, fall(v));
		sum += fall(v);
	}
	for (v = 0; v <= 14; v++) {
		printf("loop_mix: %d %d\n", v, loop_mix(v));
		sum += loop_mix(v);
	}
	for (v = 0; v <= 3; v++) {
		printf("while_in_switch: %d %d\n", v, while_in_switch(v));
		sum += while_in_switch(v);
	}
	for (v = 2; v <= 20; v += (v < 5 ? 1 : 5)) {
		printf("nomatch: %d %d\n", v, nomatch(v));
		sum += nomatch(v);
	}
	for (v = 0; v < (int)(sizeof sv / sizeof sv[0]); v++) {
		printf("sparse: %lld %d\n", sv[v], sparse(sv[v]));
		sum += sparse(sv[v]) * (v + 1);
	}
	printf("sum: %u\n", sum);
	return sum & 63;
}
