/* 2-D VLA parameters: int m, int n, long v[m][n]; indexing inside the callee */
int printf(const char *, ...);
void *memcpy(void *, const void *, unsigned long);

static unsigned sum;

static void pfill(int m, int n, long v[m][n], long base)
{
	int i, j;

	for (i = 0; i < m; i++)
		for (j = 0; j < n; j++)
			v[i][j] = base + i * 10 + j;
}

static long psum(int m, int n, long v[m][n])
{
	long t = 0;
	int i, j;

	for (i = 0; i < m; i++)
		for (j = 0; j < n; j++)
			t += v[i][j] * (i + 1);
	return t;
}

static long pget(int m, int n, long v[m][n], int i, int j)
{
	return v[i][j];
}

static unsigned long prowsize(int m, int n, long v[m][n])
{
	return sizeof v[0];
}

static unsigned long prowsize2(int n, long v[][n])
{
	return sizeof *v;
}

static long pfixedcol(int m, long v[m][3])
{
	/* not variably-modified after adjustment: pointer to long[3] */
	long t = 0;
	int i;

	for (i = 0; i < m; i++)
		t = t * 7 + v[i][0] + v[i][2];
	return t;
}

static void transpose(int m, int n, long dst[n][m], long src[m][n])
{
	int i, j;

	for (i = 0; i < m; i++)
		for (j = 0; j < n; j++)
			dst[j][i] = src[i][j];
}

static void test(int m, int n)
{
	long v[m][n];
	long w[n][m];
	long flat[16];
	int k;

	/* caller fills a flat array and copies the bytes, so only the callee indexes v */
	for (k = 0; k < m * n; k++)
		flat[k] = 500 + k;
	memcpy(v, flat, sizeof v);
	printf("pget: %d %d %ld %ld\n", m, n, pget(m, n, v, 0, 0), pget(m, n, v, m - 1, n - 1));
	printf("psum_flat: %d %d %ld\n", m, n, psum(m, n, v));
	pfill(m, n, v, 1000);
	memcpy(flat, v, sizeof v);
	for (k = 0; k < m * n; k++)
		printf("pfill: %d %d %d %ld\n", m, n, k, flat[k]);
	printf("psum: %d %d %ld\n", m, n, psum(m, n, v));
	printf("prowsize: %d %d %lu %lu\n", m, n, prowsize(m, n, v), prowsize2(n, v));
	transpose(m, n, w, v);
	memcpy(flat, w, sizeof w);
	for (k = 0; k < m * n; k++)
		printf("transpose: %d %d %d %ld\n", m, n, k, flat[k]);
	sum += (unsigned)psum(n, m, w);
}

static void fixedcol(int m)
{
	long f[m][3];
	long flat[12];
	int k;

	for (k = 0; k < m * 3; k++)
		flat[k] = k + 1;
	memcpy(f, flat, sizeof f);
	printf("pfixedcol: %d %ld\n", m, pfixedcol(m, f));
	sum += (unsigned)pfixedcol(m, f);
}

int main(void)
{
	int m, n;

	for (m = 1; m <= 3; m++)
		for (n = 1; n <= 4; n++)
			test(m, n);
	for (m = 1; m <= 4; m++)
		fixedcol(m);
	printf("sum: %u\n", sum);
	return sum & 63;
}
