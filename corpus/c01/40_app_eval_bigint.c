/* small applications: stack-based expression evaluator (shunting-yard), big integers on arrays of unsigned */
int printf(const char *, ...);
void *memset(void *, int, unsigned long);

static unsigned sum;

/* ---- expression evaluator: integers, + - * / % ( ) unary minus; errors reported as codes ---- */
enum { OK, E_SYNTAX, E_DIVZERO, E_DEPTH };

static long vals[16];
static char ops[16];
static int nvals, nops, err;

static int prec(char op) { return op == 'n' ? 3 : op == '*' || op == '/' || op == '%' ? 2 : op == '+' || op == '-' ? 1 : 0; }

static void apply(void)
{
	char op = ops[--nops];
	long b, a;

	if (op == 'n') {
		if (nvals < 1) { err = E_SYNTAX; return; }
		vals[nvals - 1] = -vals[nvals - 1];
		return;
	}
	if (nvals < 2) { err = E_SYNTAX; return; }
	b = vals[--nvals];
	a = vals[--nvals];
	switch (op) {
	case '+': a += b; break;
	case '-': a -= b; break;
	case '*': a *= b; break;
	case '/': if (!b) { err = E_DIVZERO; return; } a /= b; break;
	case '%': if (!b) { err = E_DIVZERO; return; } a %= b; break;
	}
	vals[nvals++] = a;
}

static long eval(const char *s)
{
	int expect_operand = 1;

	nvals = nops = 0;
	err = OK;
	for (; *s && !err; s++) {
		if (*s == ' ')
			continue;
		if (nvals >= 15 || nops >= 15) { err = E_DEPTH; break; }
		if (*s >= '0' && *s <= '9') {
			long v = 0;

			if (!expect_operand) { err = E_SYNTAX; break; }
			while (*s >= '0' && *s <= '9')
				v = v * 10 + (*s++ - '0');
			s--;
			vals[nvals++] = v;
			expect_operand = 0;
		} else if (*s == '(') {
			if (!expect_operand) { err = E_SYNTAX; break; }
			ops[nops++] = '(';
		} else if (*s == ')') {
			if (expect_operand) { err = E_SYNTAX; break; }
			while (nops && ops[nops - 1] != '(' && !err)
				apply();
			if (!nops) { err = E_SYNTAX; break; }
			nops--;
		} else if (*s == '-' && expect_operand) {
			ops[nops++] = 'n';
		} else if (prec(*s)) {
			if (expect_operand) { err = E_SYNTAX; break; }
			while (nops && prec(ops[nops - 1]) >= prec(*s) && !err)
				apply();
			ops[nops++] = *s;
			expect_operand = 1;
		} else
			err = E_SYNTAX;
	}
	if (!err && expect_operand)
		err = E_SYNTAX;
	while (nops && !err) {
		if (ops[nops - 1] == '(') { err = E_SYNTAX; break; }
		apply();
	}
	return err || nvals != 1 ? 0 : vals[0];
}

/* ---- big integers: little-endian arrays of 32-bit limbs ---- */
typedef struct { unsigned limb[12]; int n; } big;

static void big_set(big *r, unsigned v) { memset(r, 0, sizeof *r); r->limb[0] = v; r->n = 1; }

static void big_add(big *r, const big *a, const big *b)
{
	unsigned long carry = 0;
	int i, n = 1;

	for (i = 0; i < 12; i++) {		/* limbs at and above ->n count as zero; r may alias a or b */
		carry += (unsigned long)(i < a->n ? a->limb[i] : 0) + (i < b->n ? b->limb[i] : 0);
		r->limb[i] = (unsigned)carry;
		if (r->limb[i])
			n = i + 1;
		carry >>= 32;
	}
	r->n = n;
}

static void big_mul(big *r, const big *a, const big *b)
{
	big t;
	int i, j;

	memset(&t, 0, sizeof t);
	for (i = 0; i < a->n; i++) {
		unsigned long carry = 0;

		for (j = 0; j < b->n || carry; j++) {
			carry += (unsigned long)a->limb[i] * b->limb[j] + t.limb[i + j];
			t.limb[i + j] = (unsigned)carry;
			carry >>= 32;
		}
	}
	t.n = a->n + b->n;
	while (t.n > 1 && !t.limb[t.n - 1])
		t.n--;
	*r = t;
}

static unsigned big_divsmall(big *a, unsigned d)
{
	unsigned long rem = 0;
	int i;

	for (i = a->n - 1; i >= 0; i--) {
		rem = rem << 32 | a->limb[i];
		a->limb[i] = (unsigned)(rem / d);
		rem %= d;
	}
	while (a->n > 1 && !a->limb[a->n - 1])
		a->n--;
	return (unsigned)rem;
}

static const char *big_str(big a, char *buf, int size)
{
	char *p = buf + size;

	*--p = 0;
	do
		*--p = (char)('0' + big_divsmall(&a, 10));
	while (a.n > 1 || a.limb[0]);
	return p;
}

int main(void)
{
	static const char *const exprs[] = {"1+2*3", "(1+2)*3", "2*(3+4)*5-6/2", "-3+5", "-(2+3)*-4", "10%4+7/2", "((((9))))", "1/0", "5%(3-3)",
	    "2+", "(1+2", "1+2)", "3 4", "", "1--1", "100000*100000*1000", "7-2-1", "2*3%4", "-", "((((((((((((((((1))))))))))))))))"};
	char buf[128];
	big f, t, a, b;
	int i;

	for (i = 0; i < (int)(sizeof exprs / sizeof exprs[0]); i++) {
		long v = eval(exprs[i]);

		printf("eval: [%s] %d %ld\n", exprs[i], err, v);
		sum += (unsigned)v + err;
	}
	big_set(&f, 1);
	for (i = 1; i <= 40; i++) {		/* factorials */
		big_set(&t, i);
		big_mul(&f, &f, &t);
		if (i % 5 == 0) {
			printf("fact: %d %d %s\n", i, f.n, big_str(f, buf, sizeof buf));
			sum += f.limb[0] + f.limb[f.n - 1];
		}
	}
	big_set(&a, 0);
	big_set(&b, 1);
	for (i = 1; i <= 150; i++) {		/* fibonacci */
		big_add(&t, &a, &b);
		a = b;
		b = t;
		if (i % 30 == 0) {
			printf("fib: %d %d %s\n", i, a.n, big_str(a, buf, sizeof buf));
			sum += a.limb[0];
		}
	}
	big_mul(&t, &f, &f);			/* 40!^2 */
	printf("square: %d %s\n", t.n, big_str(t, buf, sizeof buf));
	big_set(&a, 0xffffffffu);
	big_mul(&b, &a, &a);
	big_add(&b, &b, &a);
	big_add(&b, &b, &a);			/* (2^32-1)^2 + 2(2^32-1) = 2^64 - 1 */
	printf("carry: %d %#x %#x %s\n", b.n, b.limb[0], b.limb[1], big_str(b, buf, sizeof buf));
	sum += t.limb[0] + b.limb[1];
	printf("sum: %u\n", sum);
	return sum & 63;
}
