/* small applications: linked list in a static pool, bubble/quick sort of structs via comparator, open-addressing hash table */
int printf(const char *, ...);
int strcmp(const char *, const char *);

static unsigned sum;

/* ---- linked list in a static pool with a free list ---- */
struct node { int val; struct node *next; };
static struct node pool[16];
static struct node *freelist;

static void pool_init(void)
{
	int i;

	for (i = 0; i < 15; i++)
		pool[i].next = &pool[i + 1];
	pool[15].next = 0;
	freelist = pool;
}

static struct node *cons(int v, struct node *next)
{
	struct node *n = freelist;

	if (!n)
		return next;
	freelist = n->next;
	n->val = v;
	n->next = next;
	return n;
}

static struct node *reverse(struct node *l)
{
	struct node *r = 0, *t;

	while (l) {
		t = l->next;
		l->next = r;
		r = l;
		l = t;
	}
	return r;
}

static struct node *remove_if(struct node *l, int (*pred)(int))
{
	struct node **pp = &l, *n;

	while ((n = *pp) != 0) {
		if (pred(n->val)) {
			*pp = n->next;
			n->next = freelist;
			freelist = n;
		} else
			pp = &n->next;
	}
	return l;
}

static int is_mult3(int v) { return v % 3 == 0; }

static void lists(int n)
{
	struct node *l = 0, *p;
	long sig = 0;
	int i, len = 0, nfree = 0;

	pool_init();
	for (i = 0; i < n; i++)
		l = cons(i * i % 11, l);
	l = reverse(l);
	l = remove_if(l, is_mult3);
	l = cons(-1, l);
	for (p = l; p; p = p->next) {
		sig = (sig * 13 + p->val + 1) % 1000003;
		len++;
	}
	for (p = freelist; p; p = p->next)
		nfree++;
	printf("lists: %d %d %d %ld %d\n", n, len, nfree, sig, (int)(l - pool));
	sum += len + nfree + (unsigned)sig;
}

/* ---- sorting structs through a comparator ---- */
struct rec { char name[4]; int key; double w; };
typedef int (*cmp_t)(const struct rec *, const struct rec *);
static int ncmp;

static int by_key(const struct rec *a, const struct rec *b) { ncmp++; return (a->key > b->key) - (a->key < b->key); }
static int by_name(const struct rec *a, const struct rec *b) { ncmp++; return strcmp(a->name, b->name); }
static int by_w_desc(const struct rec *a, const struct rec *b) { ncmp++; return (a->w < b->w) - (a->w > b->w); }

static void bubble(struct rec *a, int n, cmp_t cmp)
{
	int i, swapped = 1;

	while (swapped) {
		swapped = 0;
		for (i = 0; i + 1 < n; i++)
			if (cmp(&a[i], &a[i + 1]) > 0) {
				struct rec t = a[i];

				a[i] = a[i + 1];
				a[i + 1] = t;
				swapped = 1;
			}
		n--;
	}
}

static void quick(struct rec *a, int lo, int hi, cmp_t cmp)
{
	struct rec pivot, t;
	int i = lo, j = hi;

	if (lo >= hi)
		return;
	pivot = a[lo + (hi - lo) / 2];
	while (i <= j) {
		while (cmp(&a[i], &pivot) < 0) i++;
		while (cmp(&a[j], &pivot) > 0) j--;
		if (i <= j) {
			t = a[i]; a[i] = a[j]; a[j] = t;
			i++; j--;
		}
	}
	quick(a, lo, j, cmp);
	quick(a, i, hi, cmp);
}

static void sorts(int n, int which)
{
	static const cmp_t cmps[3] = {by_key, by_name, by_w_desc};
	struct rec a[9], b[9];
	int i, same = 1;

	for (i = 0; i < n; i++) {
		a[i].name[0] = (char)('a' + i * 5 % 7);
		a[i].name[1] = (char)('z' - i);
		a[i].name[2] = a[i].name[3] = 0;
		a[i].key = i * 7 % 10 - 4;
		a[i].w = (i * 3 % 8) * 0.25 + i * 0.001953125;	/* distinct, exact */
		b[i] = a[i];
	}
	ncmp = 0;
	bubble(a, n, cmps[which]);
	quick(b, 0, n - 1, cmps[which]);
	for (i = 0; i < n; i++)
		if (strcmp(a[i].name, b[i].name) != 0)		/* all keys are distinct: both sorts agree */
			same = 0;
	printf("sorts: %d %d %d", n, which, same);
	for (i = 0; i < n; i++)
		printf(" %s:%d", a[i].name, a[i].key);
	printf("\n");
	sum += same + (n ? a[0].key + a[n - 1].key : 0);
}

/* ---- open addressing hash table with linear probing and tombstones ---- */
static struct { const char *key; int val; } slots[16];
static const char tomb[] = "";

static unsigned hash(const char *s) { unsigned h = 2166136261u; while (*s) h = (h ^ (unsigned char)*s++) * 16777619u; return h; }

static int lookup(const char *key, int create)	/* returns the slot index or -1 */
{
	unsigned i = hash(key) & 15, n, firsttomb = 16;

	for (n = 0; n < 16; n++, i = (i + 1) & 15) {
		if (!slots[i].key)
			break;
		if (slots[i].key == tomb) {
			if (firsttomb == 16) firsttomb = i;
		} else if (strcmp(slots[i].key, key) == 0)
			return (int)i;
	}
	if (!create || (n == 16 && firsttomb == 16))
		return -1;
	if (firsttomb != 16) i = firsttomb;
	slots[i].key = key;
	slots[i].val = 0;
	return (int)i;
}

static void hashes(void)
{
	static const char *const words[] = {"a", "bb", "a", "ccc", "dd", "a", "bb", "e", "ff", "ggg", "h", "ccc", "i", "jj", "k", "a"};
	int i, k, t = 0, used = 0;

	for (i = 0; i < 16; i++)
		if ((k = lookup(words[i], 1)) >= 0)
			slots[k].val += i + 1;
	for (i = 0; i < 16; i += 3)
		if ((k = lookup(words[i], 0)) >= 0) {
			printf("hash_get: %s %d\n", words[i], slots[k].val);
			t += slots[k].val;
		}
	for (i = 0; i < 16; i++)		/* delete the two-letter words */
		if (words[i][1] && !words[i][2] && (k = lookup(words[i], 0)) >= 0)
			slots[k].key = tomb;
	printf("hash_del: %d %d %d %d\n", lookup("bb", 0) >= 0, lookup("a", 0) >= 0, lookup("zz", 0) >= 0, slots[lookup("ccc", 1)].val);
	slots[lookup("new", 1)].val = 77;
	for (i = 0; i < 16; i++)
		used += slots[i].key && slots[i].key != tomb;
	printf("hash_new: %d %d %d\n", slots[lookup("new", 0)].val, t, used);
	sum += t + used;
}

int main(void)
{
	int n, w;

	for (n = 0; n <= 16; n += 4)
		lists(n);
	for (n = 0; n <= 9; n += 3)
		for (w = 0; w < 3; w++)
			sorts(n, w);
	hashes();
	printf("sum: %u\n", sum);
	return sum & 63;
}
