/* _Generic association whose type name is "enum tag" directly followed by ':' (must not be read as a C23 enum-type-specifier) */
int printf(const char *, ...);

enum e { A, B };
enum f { X = -1, Y };
struct s { int v; };

static int kind_e(enum e x) { return _Generic(x, enum e: 1, enum f: 2, default: 0); }
static int kind_f(enum f x) { return _Generic(x, enum e: 1, enum f: 2, default: 0); }
static int kind_s(struct s x) { return _Generic(x, struct s: 3, enum e: 1, default: 0); }

int main(void)
{
	struct s v = {0};
	int a, b, c, d;

	a = kind_e(B);
	b = kind_f(X);
	c = kind_s(v);
	d = _Generic(1L, enum e: 1, long: 4, default: 0);
	printf("generic_enum: %d %d %d %d\n", a, b, c, d);
	return a + b * 2 + c * 4 + d * 8;
}
