/* pointers to VLA rows: long (*p)[n+1] = v; p++, p + k, p[i][j], (*p)[j] (row differences are in 07) */
int printf(const char *, ...);
void *memcpy(void *, const void *, unsigned long);

static unsigned sum;

/* fill v (n rows of n+1 longs) with 0,1,2,... through the byte representation only */
static void fillflat(void *v, int n)
{
	long flat[30];
	int k;

	for (k = 0; k < n * (n + 1); k++)
		flat[k] = k;
	memcpy(v, flat, (unsigned long)n * (n + 1) * sizeof(long));
}

static void deref0(int n)
{
	long v[n][n + 1];
	long (*p)[n + 1] = v;

	fillflat(v, n);
	printf("deref0: %d %ld %ld %lu\n", n, (*p)[0], (*p)[n], (unsigned long)sizeof *p);
	sum += (unsigned)(*p)[n];
}

static void incr(int n)
{
	long v[n][n + 1];
	long (*p)[n + 1] = v;
	int i;

	fillflat(v, n);
	for (i = 0; i < n; i++) {
		printf("incr: %d %d %ld %ld\n", n, i, (*p)[0], (*p)[n]);
		sum += (unsigned)(*p)[0];
		p++;
	}
}

static void plusk(int n)
{
	long v[n][n + 1];
	long (*p)[n + 1] = v;
	int k;

	fillflat(v, n);
	for (k = 0; k < n; k++) {
		long (*q)[n + 1] = p + k;
		printf("plusk: %d %d %ld %ld\n", n, k, (*q)[0], (*(p + k))[1]);
		sum += (unsigned)(*q)[0];
	}
}

static void index2(int n)
{
	long v[n][n + 1];
	long (*p)[n + 1] = v;
	int i, j;
	long t = 0;

	fillflat(v, n);
	for (i = 0; i < n; i++)
		for (j = 0; j <= n; j++)
			t = t * 3 + p[i][j];
	printf("index2: %d %ld\n", n, t);
	sum += (unsigned)t;
}

static void decr(int n)
{
	long v[n][n + 1];
	long (*p)[n + 1] = v;
	long (*e)[n + 1];

	fillflat(v, n);
	e = p + n;		/* one past the last row */
	while (e != p) {
		e--;
		printf("decr: %d %ld\n", n, (*e)[n]);
		sum += (unsigned)(*e)[n];
	}
}

static void elemptr(int n)
{
	/* pointer to element obtained from a row: arithmetic in units of long (not variably modified) */
	long v[n][n + 1];
	long (*p)[n + 1] = v;
	long *e = *p;
	long *f = p[0];

	fillflat(v, n);
	printf("elemptr: %d %ld %ld %d\n", n, e[0], e[n], e == f);
	sum += (unsigned)e[n];
}

int main(void)
{
	int n;

	for (n = 1; n <= 4; n++) deref0(n);
	for (n = 1; n <= 4; n++) incr(n);
	for (n = 1; n <= 4; n++) plusk(n);
	for (n = 1; n <= 4; n++) index2(n);
	for (n = 1; n <= 4; n++) decr(n);
	for (n = 1; n <= 4; n++) elemptr(n);
	printf("sum: %u\n", sum);
	return sum & 63;
}
