/* 1-D VLA function parameters: int a[n], a[n+1], a[static n], [*] in prototypes */
int printf(const char *, ...);

static long total(int n, int a[n]);
static void fill(int n, int a[*], int base);
static double avg2(int n, double d[n + 1]);

static unsigned sum;

static long total(int n, int a[n])
{
	long t = 0;
	int i;

	for (i = 0; i < n; i++)
		t += a[i];
	return t;
}

static void fill(int n, int a[n], int base)
{
	int i;

	for (i = 0; i < n; i++)
		a[i] = base + i;
}

static double avg2(int n, double d[n + 1])
{
	double t = 0;
	int i;

	for (i = 0; i <= n; i++)
		t += d[i];
	return t * 2;
}

static unsigned long psize(int n, int a[n])
{
	/* a parameter declared as array is a pointer */
	return sizeof a;
}

static int last(int n, int a[static n])
{
	return a[n - 1];
}

static void rev(int n, char dst[n + 1], const char src[n + 1])
{
	int i;

	for (i = 0; i < n; i++)
		dst[i] = src[n - 1 - i];
	dst[n] = 0;
}

static void test(int n)
{
	int a[n];
	int fixed[6];
	double d[n + 1];
	char s[n + 1], r[n + 1];
	int i;

	fill(n, a, n * 100);
	fill(6, fixed, -3);
	for (i = 0; i <= n; i++)
		d[i] = i + 0.5;
	for (i = 0; i < n; i++)
		s[i] = (char)('0' + i);
	s[n] = 0;
	rev(n, r, s);
	printf("total: %d %ld %ld\n", n, total(n, a), total(6, fixed));
	if (n > 1)
		printf("part: %d %ld\n", n, total(n - 1, a + 1));
	printf("avg2: %d %a\n", n, avg2(n, d));
	printf("psize: %d %lu\n", n, psize(n, a));
	printf("last: %d %d\n", n, last(n, a));
	printf("rev: %d %s %s\n", n, s, r);
	sum += (unsigned)total(n, a) + last(n, a) + (unsigned)avg2(n, d) + r[0];
}

int main(void)
{
	int n;

	for (n = 1; n <= 6; n++)
		test(n);
	printf("sum: %u\n", sum);
	return sum & 63;
}
