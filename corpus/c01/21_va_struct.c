/* structs passed through varargs: 2 ints, 2 doubles, int+double, 16 bytes of longs, 40 bytes, at several positions */
int printf(const char *, ...);

struct ii { int a, b; };
struct dd { double x, y; };
struct id { int i; double d; };
struct ll { long p, q; };
struct big { long v[5]; };
struct c3 { char c[3]; };

static unsigned sum;

/* fmt letters: i int, d double, A struct ii, B struct dd, C struct id, D struct ll, E struct big, F struct c3 */
static long rd(const char *fmt, ...)
{
	__builtin_va_list ap;
	long acc = 0, v = 0;
	int k, j;

	__builtin_va_start(ap, fmt);
	for (k = 0; fmt[k]; k++) {
		switch (fmt[k]) {
		case 'i': v = __builtin_va_arg(ap, int); break;
		case 'd': v = (long)(__builtin_va_arg(ap, double) * 4); break;
		case 'A': { struct ii s = __builtin_va_arg(ap, struct ii); v = s.a * 1000L + s.b; break; }
		case 'B': { struct dd s = __builtin_va_arg(ap, struct dd); v = (long)(s.x * 4) * 1000 + (long)(s.y * 4); break; }
		case 'C': { struct id s = __builtin_va_arg(ap, struct id); v = s.i * 1000L + (long)(s.d * 4); break; }
		case 'D': { struct ll s = __builtin_va_arg(ap, struct ll); v = s.p * 1000 + s.q; break; }
		case 'E': {
			struct big s = __builtin_va_arg(ap, struct big);
			for (v = 0, j = 0; j < 5; j++)
				v = v * 10 + s.v[j];
			break;
		}
		case 'F': { struct c3 s = __builtin_va_arg(ap, struct c3); v = s.c[0] * 10000L + s.c[1] * 100 + s.c[2]; break; }
		}
		printf(" %ld", v);
		acc = (acc * 31 + v) % 1000000007L;
	}
	__builtin_va_end(ap);
	return acc;
}

static void finish(long r)
{
	printf(" = %ld\n", r);
	sum += (unsigned)r;
}

static void test(int n)
{
	struct ii a = {n, -n};
	struct dd b = {n + 0.25, n * -0.5};
	struct id c = {n + 7, n + 0.75};
	struct ll d = {n * 3, n * 5 + 1};
	struct big e = {{n, 1, 2, 3, 4}};
	struct c3 f = {{(char)n, (char)(n + 1), (char)(n + 2)}};

	/* struct first */
	printf("first_ii: %d", n); finish(rd("Aii", a, 1, 2));
	printf("first_dd: %d", n); finish(rd("Bdd", b, 1.5, 2.5));
	printf("first_id: %d", n); finish(rd("Cid", c, 1, 2.5));
	printf("first_ll: %d", n); finish(rd("Dii", d, 1, 2));
	printf("first_big: %d", n); finish(rd("Eid", e, 1, 2.5));
	printf("first_c3: %d", n); finish(rd("Fii", f, 1, 2));
	/* struct after the integer registers are nearly full (fmt + 4 ints = 5 of 6): ll needs 2 -> memory */
	printf("late_ii: %d", n); finish(rd("iiiiAi", 1, 2, 3, 4, a, 5));
	printf("late_ll: %d", n); finish(rd("iiiiDi", 1, 2, 3, 4, d, 5));
	printf("late_id: %d", n); finish(rd("iiiiiCi", 1, 2, 3, 4, 5, c, 6));
	printf("late_c3: %d", n); finish(rd("iiiiiFi", 1, 2, 3, 4, 5, f, 6));
	/* struct of doubles after 7 doubles: needs 2 SSE registers, only 1 left -> memory */
	printf("late_dd: %d", n); finish(rd("dddddddBd", .5, 1., 1.5, 2., 2.5, 3., 3.5, b, 4.));
	printf("late_dd8: %d", n); finish(rd("ddddddddBi", .5, 1., 1.5, 2., 2.5, 3., 3.5, 4., b, 9));
	/* all in memory */
	printf("stack_all: %d", n); finish(rd("iiiiiiiADCBEF", 1, 2, 3, 4, 5, 6, 7, a, d, c, b, e, f));
	/* several structs in a row, interleaved with scalars */
	printf("mix: %d", n); finish(rd("AiBdCEDFi", a, n, b, n * 0.5, c, e, d, f, -n));
	printf("two_big: %d", n); finish(rd("EiEd", e, 1, e, 2.25));
	printf("many_ii: %d", n); finish(rd("AAAAAAA", a, a, a, a, a, a, a));
	printf("many_dd: %d", n); finish(rd("BBBBBB", b, b, b, b, b, b));
}

int main(void)
{
	int n;

	for (n = 0; n <= 4; n++)
		test(n);
	printf("sum: %u\n", sum);
	return sum & 63;
}
