/* loops: nested for/while/do with break/continue at every level, several induction variables, odd counter types, shadowing */
int printf(const char *, ...);

static unsigned sum;

static int nest(int bi, int ci, int bj, int cj, int bk, int ck)
{
	/* break at (bi,bj,bk), continue at (ci,cj,ck); -1 disables */
	int i, j, k, t = 0;

	for (i = 0; i < 4; i++) {
		if (i == ci)
			continue;
		if (i == bi)
			break;
		j = 0;
		while (j < 4) {
			j++;
			if (j == cj)
				continue;
			if (j == bj)
				break;
			k = 0;
			do {
				k++;
				if (k == ck)
					continue;	/* jumps to the condition */
				if (k == bk)
					break;
				t += i * 16 + j * 4 + k;
			} while (k < 3);
			t += 1000;
		}
		t += 100000;
	}
	return t + i;
}

static int induction(int n)
{
	int i, j, t = 0;
	unsigned lo, hi;
	char *p, buf[9] = "abcdefgh";

	for (i = 0, j = n; i < j; i++, j--)
		t += i * j;
	for (lo = 0, hi = n * 3u; lo != hi && lo < hi; lo += 2, hi -= 1)
		t += hi - lo;
	for (p = buf, i = 0; *p && i < n; p += 2, i++)
		t += *p;
	return t * 10 + i;
}

static int counters(int n)
{
	unsigned char uc;
	signed char sc;
	unsigned u;
	long l;
	unsigned long ul;
	short s;
	int t = 0;

	for (uc = 250; uc >= 250 || uc < n; uc++)	/* wraps from 255 to 0 */
		t += uc & 7;
	for (sc = -3; sc < n; sc++)
		t += sc;
	for (u = n; u-- > 0; )				/* classic unsigned countdown */
		t += u;
	for (l = 1L << 33; l < (1L << 33) + n; l++)
		t += (int)(l & 3);
	for (ul = n; ul != (unsigned long)-1; ul--)	/* runs n+1 times, stops after wrapping below zero */
		t += 2;
	for (s = 32767 - n; s < 32767; s++)		/* stops before overflow */
		t += s & 1;
	return t;
}

static int forever(int n)
{
	int t = 0, i = 0;

	for (;;) {
		if (i >= n)
			break;
		t += i++;
	}
	while (1) {
		if (t % 7 == 0)
			break;
		t++;
	}
	do
		t += 2;
	while (0);
	for (; i > 0; )
		i -= 2;
	return t * 10 + i;
}

static int shadow(int n)
{
	int i = 100, t = 0;

	for (int i = 0; i < n; i++) {		/* for-init declaration shadows the outer i */
		int n = i * 2;			/* body shadows the parameter */

		t += n;
		{
			int i = 7;		/* inner block shadows the loop variable */

			t += i;
		}
		for (int i = n; i > 0; i--)	/* nested for-init, initialised from the shadowing n */
			t += 1;
	}
	t += i;					/* the outer i is unchanged */
	for (int i = 0, j = n; i < j; i++)
		t += j - i;
	for (struct { int a, b; } v = {0, n}; v.a < v.b; v.a++)
		t += v.a * v.b;
	{
		int t2 = t;
		int t = 5;			/* shadows after t2 was initialised from the outer t */

		t2 += t;
		return t2 + i;
	}
}

static int empty_bodies(int n)
{
	int i, j;

	for (i = 0; i < n; i++)
		;
	for (j = 0; j < n * 2; j += 3) {
	}
	while (i-- > 2)
		;
	return i * 100 + j;
}

int main(void)
{
	int b, c, n;

	/* every position of one break and one continue in a 3-level nest */
	for (b = 0; b < 3; b++)
		for (c = 0; c < 3; c++)
			for (n = 1; n <= 2; n++) {
				int r = nest(b == 0 ? n + 1 : -1, c == 0 ? n : -1, b == 1 ? n + 1 : -1, c == 1 ? n : -1, b == 2 ? n + 1 : -1, c == 2 ? n : -1);

				printf("nest: %d %d %d %d\n", b, c, n, r);
				sum += r;
			}
	printf("nest_none: %d\n", nest(-1, -1, -1, -1, -1, -1));
	for (n = 0; n <= 6; n++) {
		printf("induction: %d %d\n", n, induction(n));
		printf("counters: %d %d\n", n, counters(n));
		printf("forever: %d %d\n", n, forever(n));
		printf("shadow: %d %d\n", n, shadow(n));
		printf("empty_bodies: %d %d\n", n, empty_bodies(n));
		sum += induction(n) + counters(n) + forever(n) + shadow(n) + empty_bodies(n);
	}
	printf("sum: %u\n", sum);
	return sum & 63;
}
