/* static locals (persist, initialised once, arrays/structs, nested blocks, recursion) and _Thread_local */
int printf(const char *, ...);

struct acc { int n; long total; char name[6]; };

static unsigned sum;

_Thread_local int tl_counter = 5;
_Thread_local long tl_arr[4] = {1, 2, 3};
static _Thread_local struct acc tl_acc = {.name = "tls"};
_Thread_local int tl_zero;
static int *tl_ptr;				/* set at run time: &tl_zero is not a constant */

static int next_id(void)
{
	static int id = 100;

	return id++;
}

static long accumulate(int v)
{
	static struct acc a = {0, 0, "acc"};
	static long hist[4] = {[1] = -1};

	a.n++;
	a.total += v;
	hist[a.n & 3] += v;
	return a.total * 10 + hist[a.n & 3] + a.name[0] + hist[1];
}

static int nested(int v)
{
	static int outer = 1;
	int r;

	{
		static int inner = 10;		/* distinct object from the one below */

		inner += v;
		r = inner;
	}
	{
		static int inner = 1000;

		inner -= v;
		r += inner;
	}
	outer *= 2;
	return r + outer;
}

static int rec(int n)
{
	/* one static shared by all frames, one automatic per frame */
	static int depthmax;
	static int callcount;
	int mine = n * 3;

	callcount++;
	if (n > depthmax)
		depthmax = n;
	if (n > 0)
		mine += rec(n - 1);
	return mine + depthmax * 1000 + (n == 0 ? callcount * 100000 : 0);
}

static const char *label(int i)
{
	static const char *const names[] = {"red", "green", "blue"};
	static char buf[8] = "x-";

	buf[2] = names[i % 3][0];
	buf[3] = 0;
	return i & 1 ? names[i % 3] : buf;
}

static int tls_local(int v)
{
	static _Thread_local int t = 7;
	static _Thread_local short hist[3];

	t += v;
	hist[v % 3] += (short)t;
	return t * 100 + hist[0] + hist[1] + hist[2];
}

static void tls_file(int n)
{
	tl_counter += n;
	tl_arr[n & 3] += tl_counter;
	tl_acc.n++;
	tl_acc.total += tl_arr[3];
	tl_zero += 2;
	printf("tls_file: %d %d %ld %ld %ld %ld %d %ld %s %d\n", n, tl_counter, tl_arr[0], tl_arr[1], tl_arr[2], tl_arr[3],
	    tl_acc.n, tl_acc.total, tl_acc.name, *tl_ptr);
	sum += tl_counter + (unsigned)tl_acc.total;
}

int main(void)
{
	int n;

	tl_ptr = &tl_zero;
	for (n = 0; n <= 5; n++) {
		int id = next_id();
		long a = accumulate(n * n);
		int ne = nested(n);

		printf("next_id: %d %d\n", n, id);
		printf("accumulate: %d %ld\n", n, a);
		printf("nested: %d %d\n", n, ne);
		sum += id + (unsigned)a + ne;
	}
	for (n = 0; n <= 4; n++) {
		int r = rec(n);

		printf("rec: %d %d\n", n, r);
		sum += r;
	}
	for (n = 0; n <= 5; n++)
		printf("label: %d %s\n", n, label(n));
	for (n = 0; n <= 5; n++) {
		int t = tls_local(n);

		printf("tls_local: %d %d\n", n, t);
		sum += t;
	}
	for (n = 0; n <= 4; n++)
		tls_file(n);
	printf("sum: %u\n", sum);
	return sum & 63;
}
