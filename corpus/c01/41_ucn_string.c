/* universal character names \u and \U in string literals and character constants (C11 6.4.3) */
int printf(const char *, ...);

int main(void)
{
	static const char s8[] = "\u00e9\u20ac";		/* UTF-8: c3 a9 e2 82 ac */
	static const unsigned short s16[] = u"\u00e9\u20ac";
	static const unsigned int s32[] = U"\U0001F600\u00e9";
	static const int sw[] = L"\u00e9\U0001F600";
	unsigned t = 0;
	unsigned long i;

	printf("ucn_utf8: %lu", (unsigned long)sizeof s8);
	for (i = 0; i < sizeof s8; i++) {
		printf(" %d", (unsigned char)s8[i]);
		t = t * 3 + (unsigned char)s8[i];
	}
	printf("\n");
	printf("ucn_u16: %lu %u %u %u\n", (unsigned long)sizeof s16, s16[0], s16[1], s16[2]);
	printf("ucn_u32: %lu %u %u %u\n", (unsigned long)sizeof s32, s32[0], s32[1], s32[2]);
	printf("ucn_wide: %lu %d %d %d\n", (unsigned long)sizeof sw, sw[0], sw[1], sw[2]);
	printf("ucn_char: %d %u %u\n", L'\u00e9', (unsigned)u'\u20ac', (unsigned)U'\U0001F600');
	t += s16[1] + s32[0] + sw[0];
	printf("sum: %u\n", t);
	return t & 63;
}
