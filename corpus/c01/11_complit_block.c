/* block-scope compound literals: scalars, arrays, structs, in loops, modified through pointers */
int printf(const char *, ...);

struct pt { int x, y; };
struct rec { char tag; struct pt p[2]; double w; };

static unsigned sum;

static void scalars(int n)
{
	int *ip = &(int){n * 3};
	double *dp = &(double){n + 0.5};
	char c = (char){'a' + n};
	long l = (long){n} << 4;

	*ip += 1;
	*dp *= 2;
	printf("scalars: %d %d %a %c %ld\n", n, *ip, *dp, c, l);
	sum += *ip + (int)*dp + c + l;
}

static void arrays(int n)
{
	int *a = (int[]){n, n + 1, n + 2, n + 3};
	int *z = (int[6]){n};			/* rest zero */
	const char *s = (const char[]){"lit"};
	unsigned long sz = sizeof (int[]){1, 2, 3, 4, 5};
	int i, t = 0;

	a[2] = -a[2];
	for (i = 0; i < 4; i++)
		t = t * 5 + a[i];
	for (i = 0; i < 6; i++)
		t += z[i];
	printf("arrays: %d %d %lu %s %d\n", n, t, sz, s, (int[]){7, 8, 9}[n % 3]);
	sum += t;
}

static void structs(int n)
{
	struct pt p = (struct pt){n, -n};
	struct pt *q = &(struct pt){.y = n * 2};
	struct rec r = (struct rec){'r', {{1, 2}, {n, 4}}, 0.25};
	int m = (struct pt){n + 5, n + 6}.y;

	q->x = p.x + p.y + 9;
	p = (struct pt){p.y, p.x};		/* swap through a literal */
	printf("structs: %d %d %d %d %d %c %d %a %d\n", n, p.x, p.y, q->x, q->y, r.tag, r.p[1].x, r.w, m);
	sum += p.x + q->x + q->y + r.p[1].x + m;
}

static void loops(int n)
{
	/* a literal in a loop body is a fresh object each iteration, initialised each time */
	struct pt *prev = 0;
	int i, t = 0, same = 0;

	for (i = 0; i < n; i++) {
		struct pt *cur = &(struct pt){i, 0};

		t += cur->y;		/* must be 0 every time */
		cur->y = 100;		/* modified: must not survive */
		if (prev == cur)
			same++;		/* allowed, not printed */
		prev = cur;
		t += cur->x;
	}
	(void)same;
	printf("loops: %d %d\n", n, t);
	sum += t;
}

static void arrlit_loop(int n)
{
	int i, j, t = 0;

	for (i = 0; i < n; i++) {
		int *a = (int[3]){i, i * i};

		for (j = 0; j < 3; j++)
			t += a[j];
		a[2] = 55;
	}
	printf("arrlit_loop: %d %d\n", n, t);
	sum += t;
}

static void runtime_init(int n)
{
	int k = n;
	struct pt p = (struct pt){k + 1, k * k};
	int *a = (int[]){p.x, p.y, p.x + p.y};
	struct pt *q = &(struct pt){a[2], a[0]};

	printf("runtime_init: %d %d %d %d %d %d\n", n, a[0], a[1], a[2], q->x, q->y);
	sum += q->x;
}

static void nested(int n)
{
	struct rec *r = &(struct rec){.p = {[1] = {.y = n}}, .tag = 't'};
	struct pt **pp = (struct pt *[]){&(struct pt){1, n}, &(struct pt){2, n + 1}};

	printf("nested: %d %c %d %d %d %d %a %d %d\n", n, r->tag, r->p[0].x, r->p[0].y, r->p[1].x, r->p[1].y, r->w,
	    pp[0]->y, pp[1]->y);
	sum += r->p[1].y + pp[1]->y;
}

int main(void)
{
	int n;

	for (n = 0; n <= 4; n++) {
		scalars(n);
		arrays(n);
		structs(n);
		loops(n);
		arrlit_loop(n);
		runtime_init(n);
		nested(n);
	}
	printf("sum: %u\n", sum);
	return sum & 63;
}
