/* structs of 17..100 bytes by value (memory class), nested, arrays of structs, unions punned through char access */
int printf(const char *, ...);
int memcmp(const void *, const void *, unsigned long);

struct b17 { char c[17]; };
struct b24 { long a; double b; int c; short d; };
struct b32 { double v[4]; };
struct b40 { int i[10]; };
struct b100 { char tag[4]; int v[24]; };
struct outer { struct b17 s17; struct b24 s24; char last; };
union pun { unsigned u; float f; unsigned char b[4]; short h[2]; };
union wide { double d; unsigned long l; unsigned char b[8]; struct { int lo, hi; } w; };

static unsigned sum;

static struct b17 r17(struct b17 s, int k) { s.c[16] += k; s.c[0] = s.c[8]; return s; }
static struct b24 r24(struct b24 s, int k) { s.a += k; s.b /= 2; s.c ^= k; s.d = (short)-k; return s; }
static struct b32 r32(struct b32 s, int k) { s.v[3] += k; s.v[0] = s.v[1] + s.v[2]; return s; }
static struct b40 r40(struct b40 s, int k) { s.i[9] += k; s.i[0] = s.i[5] * 2; return s; }
static struct b100 r100(struct b100 s, int k) { s.v[23] += k; s.v[0] = s.v[12]; s.tag[3] = (char)('0' + k); return s; }
static struct outer router(struct outer s, int k) { s.s17 = r17(s.s17, k); s.s24 = r24(s.s24, k); s.last += k; return s; }

static long sum40(struct b40 s)
{
	long t = 0;
	int i;

	for (i = 0; i < 10; i++) {
		t += s.i[i];
		s.i[i] = -1;		/* modifying the parameter must not affect the caller's object */
	}
	return t;
}

static long interleaved(int a, struct b40 s, double d, struct b17 t, long l, struct b32 u, char c)
{
	return a + s.i[0] + s.i[9] + (long)d + t.c[0] + t.c[16] + l + (long)(u.v[0] + u.v[3]) + c;
}

static struct b100 make100(int k)
{
	struct b100 s = {"tag", {0}};
	int i;

	for (i = 0; i < 24; i++)
		s.v[i] = k * 100 + i;
	return s;
}

static void test(int k)
{
	struct b17 v17 = {{1, 2, 3, 4, 5, 6, 7, 8, 9, 10, 11, 12, 13, 14, 15, 16, 17}};
	struct b24 v24 = {24, 5.0, 0xff, 7};
	struct b32 v32 = {{1.5, 2.5, 3.5, 4.5}};
	struct b40 v40 = {{1, 2, 3, 4, 5, 6, 7, 8, 9, 10}};
	struct b100 v100 = make100(k);
	struct outer vo = {v17, v24, 'o'};
	struct b40 arr[3], copy[3];
	struct b100 a100, b100, c100;
	int i;

	v17 = r17(v17, k); v24 = r24(v24, k); v32 = r32(v32, k); v40 = r40(v40, k); v100 = r100(v100, k); vo = router(vo, k);
	printf("b17: %d %d %d %d\n", k, v17.c[0], v17.c[8], v17.c[16]);
	printf("b24: %d %ld %a %d %d\n", k, v24.a, v24.b, v24.c, v24.d);
	printf("b32: %d %a %a %a %a\n", k, v32.v[0], v32.v[1], v32.v[2], v32.v[3]);
	printf("b40: %d %d %d %d %ld %d\n", k, v40.i[0], v40.i[5], v40.i[9], sum40(v40), v40.i[1]);
	printf("b100: %d %s %d %d %d %d\n", k, v100.tag, v100.v[0], v100.v[12], v100.v[23], make100(k + 1).v[5]);
	printf("outer: %d %d %d %ld %d %c\n", k, vo.s17.c[0], vo.s17.c[16], vo.s24.a, vo.s24.d, vo.last);
	printf("member: %d %d %a %d %d\n", k, r17(v17, 1).c[16], r32(r32(v32, 1), 1).v[3], r40(v40, 5).i[9], router(vo, 1).s24.c);
	printf("interleaved: %d %ld\n", k, interleaved(k, v40, 2.5, v17, 1L << 35, v32, 'c'));
	/* arrays of structs: element copy, whole-array copy by loop, assignment chain */
	for (i = 0; i < 3; i++) {
		arr[i] = v40;
		arr[i].i[i] = 1000 + i;
	}
	for (i = 0; i < 3; i++)
		copy[2 - i] = arr[i];
	arr[0] = arr[1] = arr[2];
	printf("arrays: %d %d %d %d %d %d\n", k, copy[0].i[2], copy[2].i[0], copy[1].i[1], arr[0].i[2], memcmp(&arr[0], &arr[2], sizeof arr[0]) == 0);
	a100 = b100 = c100 = v100;
	c100.v[7] = -7;
	printf("chain: %d %d %d %d %d\n", k, a100.v[7], b100.v[23], c100.v[7], memcmp(&a100, &b100, sizeof a100) == 0);
	sum += v17.c[16] + (unsigned)v24.a + (unsigned)v32.v[3] + v40.i[9] + v100.v[23] + vo.last + copy[0].i[2];
}

static void puns(int k)
{
	union pun p;
	union wide w;
	unsigned char *bytes;
	int i, t = 0;

	p.u = 0x01020304u * (k + 1);
	printf("pun_u: %d %u %u %u %u %d %d\n", k, p.b[0], p.b[1], p.b[2], p.b[3], p.h[0], p.h[1]);
	p.f = k + 0.5f;
	printf("pun_f: %d %#x %u %u\n", k, p.u, p.b[2], p.b[3]);
	p.b[3] ^= 0x80;			/* flip the sign through the byte view */
	printf("pun_sign: %d %a\n", k, p.f);
	w.d = k * 2.0 + 1;
	printf("wide_d: %d %#lx %d %#x %u\n", k, w.l, w.w.lo, (unsigned)w.w.hi, w.b[7]);
	w.w.lo = k;
	w.w.hi = 0x40000000 + (k << 20);
	printf("wide_w: %d %a\n", k, w.d);
	bytes = (unsigned char *)&w;
	for (i = 0; i < (int)sizeof w; i++)
		t = t * 3 + bytes[i];
	printf("wide_bytes: %d %lu %d\n", k, (unsigned long)sizeof w, t);
	sum += t + p.b[3];
}

int main(void)
{
	int k;

	for (k = 0; k <= 3; k++) {
		test(k);
		puns(k);
	}
	printf("sum: %u\n", sum);
	return sum & 63;
}
