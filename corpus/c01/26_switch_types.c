/* switch on char/short/long/unsigned/enum/_Bool controlling types, nested switch, Duff's device, case constant expressions */
int printf(const char *, ...);

enum color { RED = -1, GREEN, BLUE = 10, LAST = BLUE + 1 };

static unsigned sum;

static int on_char(char c)
{
	switch (c) {
	case 'a': case 'e': case 'i': case 'o': case 'u': return 1;
	case ' ': case '\t': case '\n': return 2;
	case '0': case '1': case '2': return 3;
	case '\0': return 4;
	case -1: return 5;		/* (char)255 on a signed-char target promotes to -1 */
	case -128: return 6;
	case 127: return 7;
	}
	return 0;
}

static int on_short(short s)
{
	switch (s) {
	case -32768: return 1;
	case 32767: return 2;
	case -1: return 3;
	case 256: return 4;
	}
	return 0;
}

static int on_unsigned(unsigned u)
{
	switch (u) {
	case 0: return 1;
	case 0x80000000u: return 2;
	case 0xffffffffu: return 3;
	case 0x7fffffff: return 4;
	case 65536: return 5;
	}
	return 0;
}

static int on_uchar(unsigned char c)
{
	switch (c) {			/* promoted to int: 0..255 */
	case 0: return 1;
	case 128: return 2;
	case 255: return 3;
	case 'A' + 1: return 4;
	}
	return 0;
}

static int on_ulong(unsigned long u)
{
	switch (u) {
	case 0xffffffffffffffffUL: return 1;
	case 0x8000000000000000UL: return 2;
	case 0x100000000UL: return 3;
	case 5: return 4;
	}
	return 0;
}

static int on_enum(enum color c)
{
	switch (c) {
	case RED: return 1;
	case GREEN: return 2;
	case BLUE: return 3;
	case LAST: return 4;
	case LAST * 2 + (sizeof(int) == 4): return 5;	/* 23: integer constant expression */
	}
	return 0;
}

static int on_bool(int v)
{
	_Bool b = v;

	switch (b) {
	case 0: return 10;
	case 1: return 11;
	}
	return 12;
}

static int on_expr(int a, int b)
{
	switch (a * 3 + b) {		/* controlling expression with arithmetic */
	case 0: return 100;
	case 1 + 2: return 103;
	case 2 * 3: return 106;
	case (7 > 3) + 3: return 104;
	case 'a' - 'a' + 5: return 105;
	}
	return a * 3 + b;
}

static int nested(int a, int b)
{
	int r = 0;

	switch (a) {
	case 0:
		switch (b) {
		case 0: r = 1; break;		/* leaves the inner switch only */
		case 1: r = 2;
		default: r += 3;
		}
		r += 10;
		break;
	case 1:
		switch (b) {
		case 1: return 77;
		}
		r = 20;
		/* fallthrough */
	case 2:
		r += 30;
		switch (b) { default: r += 1; case 0: r += 2; }
		break;
	default:
		switch (b) case 2: r = 99;
	}
	return r;
}

static int duff(char *to, const char *from, int count)
{
	int n = (count + 7) / 8, copied = 0;

	if (count <= 0)
		return 0;
	switch (count % 8) {
	case 0: do { *to++ = *from++; copied++;
	case 7:      *to++ = *from++; copied++;
	case 6:      *to++ = *from++; copied++;
	case 5:      *to++ = *from++; copied++;
	case 4:      *to++ = *from++; copied++;
	case 3:      *to++ = *from++; copied++;
	case 2:      *to++ = *from++; copied++;
	case 1:      *to++ = *from++; copied++;
		} while (--n > 0);
	}
	return copied;
}

int main(void)
{
	static const char cs[] = {'a', 'u', 'b', ' ', '\n', '1', '3', 0, (char)255, -128, 127, 'z'};
	static const short ss[] = {-32768, 32767, -1, 256, 0, 255};
	static const unsigned us[] = {0, 0x80000000u, 0xffffffffu, 0x7fffffff, 65536, 1, 0x80000001u};
	static const unsigned long ls[] = {0xffffffffffffffffUL, 0x8000000000000000UL, 0x100000000UL, 5, 0, 0x100000005UL};
	static const int es[] = {RED, GREEN, BLUE, LAST, 23, 5, -2};
	static const char src[] = "abcdefghijklmnopqrstuvwxyz";
	char dst[32];
	int i, j;

	for (i = 0; i < (int)sizeof cs; i++) { printf("on_char: %d %d\n", cs[i], on_char(cs[i])); sum += on_char(cs[i]) * (i + 1); }
	for (i = 0; i < 6; i++) { printf("on_short: %d %d\n", ss[i], on_short(ss[i])); sum += on_short(ss[i]) * (i + 1); }
	for (i = 0; i < 7; i++) { printf("on_unsigned: %u %d\n", us[i], on_unsigned(us[i])); sum += on_unsigned(us[i]) * (i + 1); }
	for (i = 0; i < 256; i += 3) sum += on_uchar((unsigned char)i) * i;
	printf("on_uchar: %d %d %d %d %d\n", on_uchar(0), on_uchar(128), on_uchar(255), on_uchar('B'), on_uchar(1));
	for (i = 0; i < 6; i++) { printf("on_ulong: %lu %d\n", ls[i], on_ulong(ls[i])); sum += on_ulong(ls[i]) * (i + 1); }
	for (i = 0; i < 7; i++) { printf("on_enum: %d %d\n", es[i], on_enum((enum color)es[i])); sum += on_enum((enum color)es[i]); }
	printf("on_bool: %d %d %d\n", on_bool(0), on_bool(1), on_bool(256));
	for (i = 0; i <= 2; i++)
		for (j = 0; j <= 2; j++) {
			printf("on_expr: %d %d %d\n", i, j, on_expr(i, j));
			printf("nested: %d %d %d\n", i + (j == 2), j, nested(i + (j == 2), j));
			sum += on_expr(i, j) + nested(i + (j == 2), j);
		}
	for (i = 0; i <= 20; i++) {
		for (j = 0; j < 32; j++)
			dst[j] = 0;
		j = duff(dst, src, i);
		printf("duff: %d %d [%s]\n", i, j, dst);
		sum += j;
	}
	printf("sum: %u\n", sum);
	return sum & 63;
}
