/* callbacks: own generic sort with comparator, foreach with context, dispatch, function pointer arrays in structs */
int printf(const char *, ...);
void *memcpy(void *, const void *, unsigned long);

typedef int (*cmpfn)(const void *, const void *);

struct item { char name[5]; int weight; double score; };

static unsigned sum;
static int ncmp;

/* insertion sort on elements of arbitrary size, swapping through a byte buffer */
static void isort(void *base, int n, int size, cmpfn cmp)
{
	char *b = base;
	char tmp[64];
	int i, j;

	for (i = 1; i < n; i++) {
		memcpy(tmp, b + i * size, size);
		for (j = i; j > 0 && cmp(b + (j - 1) * size, tmp) > 0; j--)
			memcpy(b + j * size, b + (j - 1) * size, size);
		memcpy(b + j * size, tmp, size);
	}
}

static int cmp_int(const void *a, const void *b)
{
	int x = *(const int *)a, y = *(const int *)b;

	ncmp++;
	return (x > y) - (x < y);
}

static int cmp_int_desc(const void *a, const void *b) { return cmp_int(b, a); }

static int cmp_weight(const void *a, const void *b)
{
	const struct item *x = a, *y = b;

	ncmp++;
	return x->weight - y->weight;
}

static int cmp_score(const void *a, const void *b)
{
	const struct item *x = a, *y = b;

	ncmp++;
	return x->score < y->score ? -1 : x->score > y->score;
}

static int cmp_name(const void *a, const void *b)
{
	const char *x = ((const struct item *)a)->name, *y = ((const struct item *)b)->name;

	ncmp++;
	while (*x && *x == *y)
		x++, y++;
	return (unsigned char)*x - (unsigned char)*y;
}

static int cmp_char(const void *a, const void *b) { ncmp++; return *(const char *)a - *(const char *)b; }

struct ctx { long total; int count; int (*filter)(int); };

static int odd(int v) { return v & 1; }
static int big(int v) { return v > 4; }
static int any(int v) { (void)v; return 1; }

static void visit(int v, void *arg)
{
	struct ctx *c = arg;

	if (c->filter(v)) {
		c->total += v;
		c->count++;
	}
}

static void foreach(const int *a, int n, void (*fn)(int, void *), void *arg)
{
	int i;

	for (i = 0; i < n; i++)
		fn(a[i], arg);
}

static void sort_ints(int n, int seed)
{
	int a[10], i;
	long sig = 0;
	cmpfn order[2] = {cmp_int, cmp_int_desc};

	for (i = 0; i < n; i++)
		a[i] = (i * seed + 3) % 11 - 5;
	ncmp = 0;
	isort(a, n, sizeof a[0], order[seed & 1]);
	for (i = 0; i < n; i++)
		sig = sig * 11 + a[i] + 5;
	printf("sort_ints: %d %d %d %ld\n", n, seed, ncmp, sig);
	sum += (unsigned)sig + ncmp;
}

static void sort_items(int which)
{
	struct item it[5] = {
		{"pear", 30, 2.5}, {"fig", 10, 9.25}, {"kiwi", 20, -1.0}, {"plum", 25, 4.0}, {"date", 5, 4.5},
	};
	static const cmpfn by[3] = {cmp_weight, cmp_score, cmp_name};
	int i;

	ncmp = 0;
	isort(it, 5, sizeof it[0], by[which]);
	printf("sort_items: %d %d", which, ncmp);
	for (i = 0; i < 5; i++)
		printf(" %s", it[i].name);
	printf("\n");
	sum += it[0].weight + ncmp;
}

int main(void)
{
	static int (*const filters[3])(int) = {odd, big, any};
	int data[8] = {1, 2, 3, 4, 5, 6, 7, 8};
	char word[] = "callback";
	int n, s;

	for (n = 1; n <= 10; n += 3)
		for (s = 1; s <= 4; s++)
			sort_ints(n, s);
	for (n = 0; n < 3; n++)
		sort_items(n);
	ncmp = 0;
	isort(word, sizeof word - 1, 1, cmp_char);
	printf("sort_chars: %s %d\n", word, ncmp);
	for (n = 0; n < 3; n++)
		for (s = 0; s <= 8; s += 4) {
			struct ctx c = {0, 0, filters[n]};

			foreach(data, s, visit, &c);
			printf("foreach: %d %d %ld %d\n", n, s, c.total, c.count);
			sum += (unsigned)c.total + c.count;
		}
	printf("sum: %u\n", sum);
	return sum & 63;
}
