/* variadic reader: every integer-class promoted type and char* at every position 0..7 (stack-passed from 5 on) */
int printf(const char *, ...);
unsigned long strlen(const char *);

static unsigned sum;
static long got[8];

/* fmt letters: i int, u unsigned, l long, L unsigned long, q long long, Q unsigned long long, s char* */
static long rd(const char *fmt, ...)
{
	__builtin_va_list ap;
	long acc = 0, v;
	int k;

	__builtin_va_start(ap, fmt);
	for (k = 0; fmt[k]; k++) {
		switch (fmt[k]) {
		case 'i': v = __builtin_va_arg(ap, int); break;
		case 'u': v = __builtin_va_arg(ap, unsigned); break;
		case 'l': v = __builtin_va_arg(ap, long); break;
		case 'L': v = (long)(__builtin_va_arg(ap, unsigned long) >> 1); break;
		case 'q': v = (long)__builtin_va_arg(ap, long long); break;
		case 'Q': v = (long)(__builtin_va_arg(ap, unsigned long long) >> 1); break;
		case 's': { char *s = __builtin_va_arg(ap, char *); v = (long)strlen(s) * 256 + s[0]; break; }
		default: v = -1; break;
		}
		got[k] = v;
		acc = (acc * 31 + v) % 1000000007L;
	}
	__builtin_va_end(ap);
	return acc;
}

static char fmt[9];

static const char *mk(int pos, char c)
{
	int k;

	for (k = 0; k < 8; k++)
		fmt[k] = 'i';
	fmt[pos] = c;
	fmt[8] = 0;
	return fmt;
}

static void report(const char *ty, int pos, long r)
{
	printf("%s: %d %ld %ld %ld %ld\n", ty, pos, got[pos], got[(pos + 1) & 7], got[(pos + 7) & 7], r);
	sum += (unsigned)r;
}

static void at_int(int p, int v)
{
	const char *f = mk(p, 'i');
	long r = 0;

	switch (p) {
	case 0: r = rd(f, v, 11, 12, 13, 14, 15, 16, 17); break;
	case 1: r = rd(f, 10, v, 12, 13, 14, 15, 16, 17); break;
	case 2: r = rd(f, 10, 11, v, 13, 14, 15, 16, 17); break;
	case 3: r = rd(f, 10, 11, 12, v, 14, 15, 16, 17); break;
	case 4: r = rd(f, 10, 11, 12, 13, v, 15, 16, 17); break;
	case 5: r = rd(f, 10, 11, 12, 13, 14, v, 16, 17); break;
	case 6: r = rd(f, 10, 11, 12, 13, 14, 15, v, 17); break;
	case 7: r = rd(f, 10, 11, 12, 13, 14, 15, 16, v); break;
	}
	report("int", p, r);
}

static void at_uint(int p, unsigned v)
{
	const char *f = mk(p, 'u');
	long r = 0;

	switch (p) {
	case 0: r = rd(f, v, 11, 12, 13, 14, 15, 16, 17); break;
	case 1: r = rd(f, 10, v, 12, 13, 14, 15, 16, 17); break;
	case 2: r = rd(f, 10, 11, v, 13, 14, 15, 16, 17); break;
	case 3: r = rd(f, 10, 11, 12, v, 14, 15, 16, 17); break;
	case 4: r = rd(f, 10, 11, 12, 13, v, 15, 16, 17); break;
	case 5: r = rd(f, 10, 11, 12, 13, 14, v, 16, 17); break;
	case 6: r = rd(f, 10, 11, 12, 13, 14, 15, v, 17); break;
	case 7: r = rd(f, 10, 11, 12, 13, 14, 15, 16, v); break;
	}
	report("uint", p, r);
}

static void at_long(int p, long v)
{
	const char *f = mk(p, 'l');
	long r = 0;

	switch (p) {
	case 0: r = rd(f, v, 11, 12, 13, 14, 15, 16, 17); break;
	case 1: r = rd(f, 10, v, 12, 13, 14, 15, 16, 17); break;
	case 2: r = rd(f, 10, 11, v, 13, 14, 15, 16, 17); break;
	case 3: r = rd(f, 10, 11, 12, v, 14, 15, 16, 17); break;
	case 4: r = rd(f, 10, 11, 12, 13, v, 15, 16, 17); break;
	case 5: r = rd(f, 10, 11, 12, 13, 14, v, 16, 17); break;
	case 6: r = rd(f, 10, 11, 12, 13, 14, 15, v, 17); break;
	case 7: r = rd(f, 10, 11, 12, 13, 14, 15, 16, v); break;
	}
	report("long", p, r);
}

static void at_ulong(int p, unsigned long v)
{
	const char *f = mk(p, 'L');
	long r = 0;

	switch (p) {
	case 0: r = rd(f, v, 11, 12, 13, 14, 15, 16, 17); break;
	case 1: r = rd(f, 10, v, 12, 13, 14, 15, 16, 17); break;
	case 2: r = rd(f, 10, 11, v, 13, 14, 15, 16, 17); break;
	case 3: r = rd(f, 10, 11, 12, v, 14, 15, 16, 17); break;
	case 4: r = rd(f, 10, 11, 12, 13, v, 15, 16, 17); break;
	case 5: r = rd(f, 10, 11, 12, 13, 14, v, 16, 17); break;
	case 6: r = rd(f, 10, 11, 12, 13, 14, 15, v, 17); break;
	case 7: r = rd(f, 10, 11, 12, 13, 14, 15, 16, v); break;
	}
	report("ulong", p, r);
}

static void at_llong(int p, long long v, unsigned long long w)
{
	const char *f = mk(p, 'q');
	long r = 0;

	switch (p) {
	case 0: r = rd(f, v, 11, 12, 13, 14, 15, 16, 17); break;
	case 1: r = rd(f, 10, v, 12, 13, 14, 15, 16, 17); break;
	case 2: r = rd(f, 10, 11, v, 13, 14, 15, 16, 17); break;
	case 3: r = rd(f, 10, 11, 12, v, 14, 15, 16, 17); break;
	case 4: r = rd(f, 10, 11, 12, 13, v, 15, 16, 17); break;
	case 5: r = rd(f, 10, 11, 12, 13, 14, v, 16, 17); break;
	case 6: r = rd(f, 10, 11, 12, 13, 14, 15, v, 17); break;
	case 7: r = rd(f, 10, 11, 12, 13, 14, 15, 16, v); break;
	}
	report("llong", p, r);
	f = mk(p, 'Q');
	switch (p) {
	case 0: r = rd(f, w, 11, 12, 13, 14, 15, 16, 17); break;
	case 1: r = rd(f, 10, w, 12, 13, 14, 15, 16, 17); break;
	case 2: r = rd(f, 10, 11, w, 13, 14, 15, 16, 17); break;
	case 3: r = rd(f, 10, 11, 12, w, 14, 15, 16, 17); break;
	case 4: r = rd(f, 10, 11, 12, 13, w, 15, 16, 17); break;
	case 5: r = rd(f, 10, 11, 12, 13, 14, w, 16, 17); break;
	case 6: r = rd(f, 10, 11, 12, 13, 14, 15, w, 17); break;
	case 7: r = rd(f, 10, 11, 12, 13, 14, 15, 16, w); break;
	}
	report("ullong", p, r);
}

static void at_ptr(int p, char *v)
{
	const char *f = mk(p, 's');
	long r = 0;

	switch (p) {
	case 0: r = rd(f, v, 11, 12, 13, 14, 15, 16, 17); break;
	case 1: r = rd(f, 10, v, 12, 13, 14, 15, 16, 17); break;
	case 2: r = rd(f, 10, 11, v, 13, 14, 15, 16, 17); break;
	case 3: r = rd(f, 10, 11, 12, v, 14, 15, 16, 17); break;
	case 4: r = rd(f, 10, 11, 12, 13, v, 15, 16, 17); break;
	case 5: r = rd(f, 10, 11, 12, 13, 14, v, 16, 17); break;
	case 6: r = rd(f, 10, 11, 12, 13, 14, 15, v, 17); break;
	case 7: r = rd(f, 10, 11, 12, 13, 14, 15, 16, v); break;
	}
	report("ptr", p, r);
}

int main(void)
{
	static char text[] = "variadic";
	int p;

	for (p = 0; p < 8; p++) {
		at_int(p, -1000 - p);
		at_uint(p, 4000000000u + p);
		at_long(p, -(1L << 40) - p);
		at_ulong(p, 0xfedcba9876543210UL + p);
		at_llong(p, (1LL << 50) + p, 0x8000000000000001ULL + p);
		at_ptr(p, text + p);
	}
	printf("sum: %u\n", sum);
	return sum & 63;
}
