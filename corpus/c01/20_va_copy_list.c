/* va_copy, passing va_list to another function, re-reading a list, own printf-like formatter */
int printf(const char *, ...);

static unsigned sum;

static long vsum(int n, __builtin_va_list ap)
{
	long t = 0;

	while (n-- > 0)
		t = t * 3 + __builtin_va_arg(ap, int);
	return t;
}

static long sum_twice(int n, ...)
{
	__builtin_va_list ap, aq;
	long a, b;

	__builtin_va_start(ap, n);
	__builtin_va_copy(aq, ap);
	a = vsum(n, ap);
	b = vsum(n, aq);		/* the copy starts from the beginning again */
	__builtin_va_end(aq);
	__builtin_va_end(ap);
	return a == b ? a : -1;
}

static long copy_midway(int n, ...)
{
	/* read half, copy, finish both: the copy resumes at the same place */
	__builtin_va_list ap, aq;
	long t = 0, u = 0;
	int i;

	__builtin_va_start(ap, n);
	for (i = 0; i < n / 2; i++)
		t += __builtin_va_arg(ap, int);
	__builtin_va_copy(aq, ap);
	for (; i < n; i++) {
		t = t * 5 + __builtin_va_arg(ap, int);
		u = u * 7 + __builtin_va_arg(aq, int);
	}
	__builtin_va_end(aq);
	__builtin_va_end(ap);
	return t * 1000 + u;
}

static long restart(int n, ...)
{
	/* va_end then va_start again in the same function */
	__builtin_va_list ap;
	long a, b;

	__builtin_va_start(ap, n);
	a = vsum(n, ap);
	__builtin_va_end(ap);
	__builtin_va_start(ap, n);
	b = vsum(n > 2 ? 2 : n, ap);
	__builtin_va_end(ap);
	return a * 100 + b;
}

/* own formatter: %d %u %l (long) %x (unsigned hex) %s %c %f (double, printed in 1/16 units) %% */
static int outlen;
static char out[128];

static void putch(int c) { if (outlen < 127) out[outlen++] = (char)c; }

static void putnum(unsigned long v, int base, int neg)
{
	char tmp[24];
	int n = 0;

	do
		tmp[n++] = "0123456789abcdef"[v % base];
	while (v /= base);
	if (neg)
		putch('-');
	while (n > 0)
		putch(tmp[--n]);
}

static int vfmt(const char *f, __builtin_va_list ap)
{
	outlen = 0;
	for (; *f; f++) {
		if (*f != '%') {
			putch(*f);
			continue;
		}
		switch (*++f) {
		case 'd': { int v = __builtin_va_arg(ap, int); putnum(v < 0 ? 0UL - v : (unsigned long)v, 10, v < 0); break; }
		case 'u': putnum(__builtin_va_arg(ap, unsigned), 10, 0); break;
		case 'l': { long v = __builtin_va_arg(ap, long); putnum(v < 0 ? 0UL - v : (unsigned long)v, 10, v < 0); break; }
		case 'x': putnum(__builtin_va_arg(ap, unsigned), 16, 0); break;
		case 'c': putch(__builtin_va_arg(ap, int)); break;
		case 's': { const char *s = __builtin_va_arg(ap, const char *); while (*s) putch(*s++); break; }
		case 'f': { double d = __builtin_va_arg(ap, double); long v = (long)(d * 16); putnum(v < 0 ? 0UL - v : (unsigned long)v, 10, v < 0); putch('/'); putnum(16, 10, 0); break; }
		case '%': putch('%'); break;
		}
	}
	out[outlen] = 0;
	return outlen;
}

static int fmt(const char *f, ...)
{
	__builtin_va_list ap;
	int n;

	__builtin_va_start(ap, f);
	n = vfmt(f, ap);
	__builtin_va_end(ap);
	return n;
}

/* a wrapper that forwards its own list after consuming a prefix */
static int tagged(int tag, const char *f, ...)
{
	__builtin_va_list ap;
	int n;

	__builtin_va_start(ap, f);
	n = vfmt(f, ap) + tag;
	__builtin_va_end(ap);
	return n;
}

int main(void)
{
	int n;

	for (n = 0; n <= 9; n++) {
		long a = sum_twice(n, 1, 2, 3, 4, 5, 6, 7, 8, 9);
		long b = copy_midway(n, 9, 8, 7, 6, 5, 4, 3, 2, 1);
		long c = restart(n, n, -n, 3, 4, 5, 6, 7, 8, 9);

		printf("sum_twice: %d %ld\n", n, a);
		printf("copy_midway: %d %ld\n", n, b);
		printf("restart: %d %ld\n", n, c);
		sum += (unsigned)(a + b + c);
	}
	for (n = -2; n <= 2; n++) {
		int len = fmt("d=%d u=%u l=%l x=%x c=%c s=%s f=%f %%", n * 1234, (unsigned)n, n * 10000000000L, n + 255u,
		    'a' + n + 2, "str" + (n & 1), n * 1.25);

		printf("fmt: %d %d [%s]\n", n, len, out);
		sum += len;
		len = tagged(n + 10, "%s|%d|%f|%d|%d|%d|%d|%d|%f", "t", 1, 2.5, 3, 4, 5, 6, n, n / 4.0);
		printf("tagged: %d %d [%s]\n", n, len, out);
		sum += len;
	}
	printf("sum: %u\n", sum);
	return sum & 63;
}
