/* initialisation of automatic arrays: designated indices, strings, wide strings, multi-dimensional, arrays of structs */
int printf(const char *, ...);

struct kv { const char *key; int val; };
struct cell { char c; int v[2]; };
enum { N0, N1, N2, NMAX = 6 };

static unsigned sum;

static int f(int x) { return x * x + 1; }

static void ints(int n)
{
	int a0[4] = {0};
	int a1[6] = {1, 2, n};				/* rest zero */
	int a2[] = {n, n + 1, n + 2};			/* size from initialiser */
	int a3[8] = {[5] = 1, 2, [1] = n, [0] = 9};	/* [5]=1,[6]=2 then [1], [0] */
	int a4[] = {[3] = n, [1] = 7};			/* 4 elements */
	int a5[NMAX] = {[N2] = 20, [N1] = 10, [NMAX - 1] = n};
	int a6[3] = {f(n), f(n + 1), n ? n : -1};	/* run-time expressions and calls */
	int a7[4] = {[0] = 1, [0] = n, [2] = 5, [2] = 6};	/* overriding */
	int i, t = 0;

	for (i = 0; i < 4; i++) t = t * 3 + a0[i];
	for (i = 0; i < 6; i++) t = t * 3 + a1[i] + a5[i];
	for (i = 0; i < 3; i++) t = t * 3 + a2[i] + a6[i];
	for (i = 0; i < 8; i++) t = (t * 3 + a3[i]) % 1000003;
	for (i = 0; i < 4; i++) t = (t * 3 + a4[i] + a7[i]) % 1000003;
	printf("ints: %d %lu %lu %d\n", n, (unsigned long)(sizeof a2 / sizeof a2[0]), (unsigned long)(sizeof a4 / sizeof a4[0]), t);
	printf("a3: %d %d %d %d %d %d %d %d\n", a3[0], a3[1], a3[2], a3[3], a3[4], a3[5], a3[6], a3[7]);
	printf("a7: %d %d %d %d\n", a7[0], a7[1], a7[2], a7[3]);
	sum += t;
}

static void strings(int n)
{
	char s0[] = "hello";				/* 6 bytes */
	char s1[8] = "hi";				/* rest zero */
	char s2[3] = "abc";				/* exactly fitting: no NUL stored */
	char s3[] = {"braced"};
	char s4[] = "two" "parts";			/* concatenation */
	char s5[] = {'c', 'h', n + '0', 0};
	char s6[4] = "";
	unsigned char s7[] = "\377\x80\1";
	const char *p = "pointer to literal";
	const char *ps[] = {"a", "bc", "def", 0};
	char s8[2][4] = {"ab", "cd"};
	char s9[][3] = {"xy", "z", ""};
	int i, t = 0;

	for (i = 0; i < 8; i++) t += s1[i] * (i + 1);
	for (i = 0; i < 3; i++) t += s2[i];
	for (i = 0; i < 4; i++) t += s6[i];
	for (i = 0; ps[i]; i++) t += ps[i][0];
	printf("strings: %d %s %s %s %s %s %lu %lu %lu %lu\n", n, s0, s1, s3, s4, s5, (unsigned long)sizeof s0, (unsigned long)sizeof s3,
	    (unsigned long)sizeof s4, (unsigned long)sizeof s7);
	printf("strings2: %d %d %d %d %c %s %s %s %lu %d\n", s7[0], s7[1], s7[2], s7[3], p[n], s8[0], s8[1], s9[0], (unsigned long)sizeof s9, t);
	sum += t + s5[2] + s7[0];
}

static void wide(int n)
{
	int w[] = L"ab";				/* wchar_t is int on this target */
	int w2[5] = L"xy";
	unsigned short u16[] = u"hé";		/* char16_t */
	unsigned int u32[] = U"😀z";		/* char32_t */
	unsigned short u16b[4] = u"q";
	int w3[2] = L"mn";				/* exactly fitting */

	printf("wide: %d %lu %d %d %d %d %d %d\n", n, (unsigned long)sizeof w, w[0], w[1], w[2], w2[1], w2[2], w2[4]);
	printf("u16: %lu %u %u %u %u %u\n", (unsigned long)sizeof u16, u16[0], u16[1], u16[2], u16b[0], u16b[3]);
	printf("u32: %lu %u %u %u %d %d\n", (unsigned long)sizeof u32, u32[0], u32[1], u32[2], w3[0], w3[1]);
	sum += w[1] + u16[1] + u32[0] + w3[1] + n;
}

static void multi(int n)
{
	int m0[2][3] = {{1, 2, 3}, {4, 5, n}};
	int m1[2][3] = {1, 2, 3, 4, 5, n};		/* no inner braces */
	int m2[3][3] = {{1}, {n, 2}, {0, 0, 3}};	/* partial rows */
	int m3[2][3] = {{1, 2}, 4, 5};			/* mixed: second row by elision */
	int m4[][2] = {{1}, {2, 3}, 4};			/* 3 rows */
	int m5[2][2][2] = {{{1, 2}, {3}}, {{n}}};
	int m6[3][2] = {[2] = {n, 1}, [0][1] = 8};
	int m7[2][3] = {[1][1] = n, 7};			/* continues to [1][2] */
	int i, j, t = 0;

	for (i = 0; i < 2; i++)
		for (j = 0; j < 3; j++)
			t = (t * 7 + m0[i][j] + m1[i][j] * 2 + m3[i][j] * 3 + m7[i][j] * 5) % 1000003;
	for (i = 0; i < 3; i++)
		for (j = 0; j < 3; j++)
			t = (t * 7 + m2[i][j]) % 1000003;
	for (i = 0; i < 3; i++)
		for (j = 0; j < 2; j++)
			t = (t * 7 + m4[i][j] + m6[i][j]) % 1000003;
	printf("multi: %d %lu %d %d %d %d %d %d %d\n", n, (unsigned long)(sizeof m4 / sizeof m4[0]), m5[0][0][1], m5[0][1][0], m5[0][1][1],
	    m5[1][0][0], m5[1][1][1], m7[1][2], t);
	sum += t;
}

static void of_structs(int n)
{
	struct kv k0[] = {{"one", 1}, {"two", 2}, {"n", n}};
	struct kv k1[3] = {"a", 1, "b", n};		/* brace elision; third zero */
	struct kv k2[] = {[2] = {"last", n}, [0].val = 5, [1] = {.val = 6}};
	struct cell c0[2] = {{'x', {1, n}}, {'y'}};
	struct cell c1[] = {'p', 1, 2, 'q', 3, n};	/* fully elided */
	struct cell c2[2] = {[1].v[1] = n, [0] = {.v = {4}}};
	struct kv copy = k0[2];

	printf("kv: %d %s %d %s %d %d %s %d %d %d %s\n", n, k0[2].key, k0[2].val, k1[1].key, k1[1].val, k1[2].key == 0, k2[2].key,
	    k2[0].val, k2[1].val, k2[0].key == 0, copy.key);
	printf("cell: %d %c %d %d %d %c %d %d %d %d %lu\n", n, c0[0].c, c0[0].v[1], c0[1].v[0], c0[1].v[1], c1[1].c, c1[1].v[1], c2[1].v[1],
	    c2[0].v[0], c2[0].v[1], (unsigned long)(sizeof c1 / sizeof c1[0]));
	sum += k0[2].val + k1[1].val + k2[2].val + c0[0].v[1] + c1[1].v[1] + c2[1].v[1];
}

int main(void)
{
	int n;

	for (n = 0; n <= 3; n++) {
		ints(n);
		strings(n);
		wide(n);
		multi(n);
		of_structs(n);
	}
	printf("sum: %u\n", sum);
	return sum & 63;
}
