/* 1-D VLAs of int: run-time sizeof, size expression evaluated once, re-allocation in a loop */
int printf(const char *, ...);

static int calls;
static int size(int n) { calls++; return n; }

static unsigned sum;

static void basic(int n)
{
	int a[n];
	int i, s = 0;

	for (i = 0; i < n; i++)
		a[i] = i * i + n;
	for (i = n - 1; i >= 0; i--)
		s += a[i];
	printf("basic: %d %lu %lu %d\n", n, (unsigned long)sizeof a, (unsigned long)(sizeof a / sizeof a[0]), s);
	sum += s + sizeof a;
}

static void once(int n)
{
	int before = calls;
	int a[size(n) + 1];
	int mid = calls;
	unsigned long z = sizeof a;
	int after = calls;

	a[0] = 1;
	a[n] = 2;
	printf("once: %d %d %d %lu %d\n", n, mid - before, after - mid, z, a[0] + a[n]);
	sum += z + (mid - before) * 100 + (after - mid) * 1000;
}

static void sidefx(int n)
{
	int k = n;
	int a[k++];
	int b[k++];
	int c[++k];

	a[n - 1] = 7;
	b[n] = 8;
	c[n + 2] = 9;
	printf("sidefx: %d %d %lu %lu %lu %d\n", n, k, (unsigned long)sizeof a, (unsigned long)sizeof b,
	    (unsigned long)sizeof c, a[n - 1] + b[n] + c[n + 2]);
	sum += k + sizeof c;
}

static void inloop(int lo, int hi)
{
	int n, i, t = 0;

	for (n = lo; n <= hi; n++) {
		int a[n];
		unsigned char b[n * 3];

		for (i = 0; i < n; i++)
			a[i] = n * 10 + i;
		for (i = 0; i < n * 3; i++)
			b[i] = (unsigned char)(i + n);
		for (i = 0; i < n; i++)
			t += a[i] + b[i * 3 + 2];
		printf("inloop: %d %lu %lu %d\n", n, (unsigned long)sizeof a, (unsigned long)sizeof b, t);
	}
	sum += t;
}

static void down(int hi)
{
	int n = hi;

	while (n > 0) {
		long a[n];
		int i;

		for (i = 0; i < n; i++)
			a[i] = (long)i << n;
		printf("down: %d %lu %ld\n", n, (unsigned long)sizeof a, a[n - 1]);
		sum += (unsigned)a[n - 1];
		n--;
	}
}

static void two(int n, int m)
{
	int a[n];
	int b[m];
	int i, s = 0;

	for (i = 0; i < n; i++)
		a[i] = 1000 + i;
	for (i = 0; i < m; i++)
		b[i] = 2000 + i;
	for (i = 0; i < n; i++)
		s += a[i];
	for (i = 0; i < m; i++)
		s -= b[i];
	printf("two: %d %d %lu %lu %d\n", n, m, (unsigned long)sizeof a, (unsigned long)sizeof b, s);
	sum += s & 0xff;
}

int main(void)
{
	int n, m;

	for (n = 1; n <= 6; n++)
		basic(n);
	for (n = 1; n <= 4; n++)
		once(n);
	for (n = 1; n <= 3; n++)
		sidefx(n);
	inloop(1, 5);
	down(5);
	for (n = 1; n <= 3; n++)
		for (m = 1; m <= 3; m++)
			two(n, m);
	printf("calls: %d\n", calls);
	printf("sum: %u\n", sum);
	return sum & 63;
}
