/* structs of 1..16 bytes passed and returned by value: char arrays, int/float/double mixes (all register classes) */
int printf(const char *, ...);

struct b1 { char c; };
struct b2 { char c[2]; };
struct b3 { char c[3]; };
struct b4 { short s; char c[2]; };
struct b7 { char c[7]; };
struct b8 { int i; float f; };
struct b9 { char c[9]; };
struct b12 { int i[3]; };
struct b16 { long l; double d; };
struct ff { float x, y; };
struct fff { float x, y, z; };
struct ffff { float x, y, z, w; };
struct d1 { double d; };
struct dd { double x, y; };
struct di { double d; int i; };
struct id { int i; double d; };
struct fi { float f; int i; };
struct cf { char c; float f; };
struct lf { long l; float f; };
struct nest { struct b3 a; struct ff b; char c; };

static unsigned sum;

static struct b1 r1(struct b1 s, int k) { s.c += k; return s; }
static struct b2 r2(struct b2 s, int k) { s.c[1] += k; return s; }
static struct b3 r3(struct b3 s, int k) { s.c[2] += k; s.c[0] = s.c[1]; return s; }
static struct b4 r4(struct b4 s, int k) { s.s += k; s.c[1] = (char)k; return s; }
static struct b7 r7(struct b7 s, int k) { s.c[6] += k; s.c[3] = s.c[0]; return s; }
static struct b8 r8(struct b8 s, int k) { s.i += k; s.f *= 2; return s; }
static struct b9 r9(struct b9 s, int k) { s.c[8] += k; s.c[0] += 1; return s; }
static struct b12 r12(struct b12 s, int k) { s.i[2] += k; s.i[0] -= k; return s; }
static struct b16 r16(struct b16 s, int k) { s.l += k; s.d += 0.5; return s; }
static struct ff rff(struct ff s, int k) { s.x += k; s.y -= k; return s; }
static struct fff rfff(struct fff s, int k) { s.z += k; s.x = s.y; return s; }
static struct ffff rffff(struct ffff s, int k) { s.w += k; s.x += s.z; return s; }
static struct d1 rd1(struct d1 s, int k) { s.d *= k; return s; }
static struct dd rdd(struct dd s, int k) { s.x += k; s.y = s.x * 2; return s; }
static struct di rdi(struct di s, int k) { s.d += k; s.i -= k; return s; }
static struct id rid(struct id s, int k) { s.d += k; s.i -= k; return s; }
static struct fi rfi(struct fi s, int k) { s.f += k; s.i += k; return s; }
static struct cf rcf(struct cf s, int k) { s.c += k; s.f += 0.25f; return s; }
static struct lf rlf(struct lf s, int k) { s.l <<= k; s.f += k; return s; }
static struct nest rnest(struct nest s, int k) { s.a.c[2] += k; s.b.y += k; s.c = s.a.c[0]; return s; }

/* several small structs together with scalars, so that registers run out part-way */
static long many(struct b3 a, int i, struct ff b, double d, struct b16 c, struct id e, long l, struct b12 f, struct dd g, struct b1 h)
{
	return a.c[0] + a.c[2] + i + (long)(b.x + b.y) + (long)d + c.l + (long)c.d + e.i + (long)e.d + l + f.i[0] + f.i[2] + (long)(g.x + g.y) + h.c;
}

static void test(int k)
{
	struct b1 v1 = {1};
	struct b2 v2 = {{1, 2}};
	struct b3 v3 = {{1, 2, 3}};
	struct b4 v4 = {1000, {1, 2}};
	struct b7 v7 = {{1, 2, 3, 4, 5, 6, 7}};
	struct b8 v8 = {8, 1.5f};
	struct b9 v9 = {{1, 2, 3, 4, 5, 6, 7, 8, 9}};
	struct b12 v12 = {{10, 20, 30}};
	struct b16 v16 = {16, 1.25};
	struct ff vff = {1.5f, 2.5f};
	struct fff vfff = {1, 2, 3};
	struct ffff vffff = {1, 2, 3, 4};
	struct d1 vd1 = {2.5};
	struct dd vdd = {1.5, 0};
	struct di vdi = {0.5, 7};
	struct id vid = {7, 0.5};
	struct fi vfi = {0.5f, 7};
	struct cf vcf = {'c', 1};
	struct lf vlf = {3, 0.5f};
	struct nest vn = {{{1, 2, 3}}, {4, 5}, 6};
	struct b3 w3, x3;
	struct dd wdd, xdd;

	v1 = r1(v1, k); v2 = r2(v2, k); v3 = r3(v3, k); v4 = r4(v4, k); v7 = r7(v7, k);
	printf("b1_b7: %d %d %d,%d %d,%d,%d %d,%d,%d %d,%d,%d\n", k, v1.c, v2.c[0], v2.c[1], v3.c[0], v3.c[1], v3.c[2], v4.s, v4.c[0],
	    v4.c[1], v7.c[0], v7.c[3], v7.c[6]);
	v8 = r8(v8, k); v9 = r9(v9, k); v12 = r12(v12, k); v16 = r16(v16, k);
	printf("b8_b16: %d %d,%a %d,%d,%d %d,%d,%d %ld,%a\n", k, v8.i, v8.f, v9.c[0], v9.c[4], v9.c[8], v12.i[0], v12.i[1], v12.i[2], v16.l, v16.d);
	vff = rff(vff, k); vfff = rfff(vfff, k); vffff = rffff(vffff, k); vd1 = rd1(vd1, k); vdd = rdd(vdd, k);
	printf("float: %d %a,%a %a,%a,%a %a,%a,%a,%a %a %a,%a\n", k, vff.x, vff.y, vfff.x, vfff.y, vfff.z, vffff.x, vffff.y, vffff.z, vffff.w,
	    vd1.d, vdd.x, vdd.y);
	vdi = rdi(vdi, k); vid = rid(vid, k); vfi = rfi(vfi, k); vcf = rcf(vcf, k); vlf = rlf(vlf, k); vn = rnest(vn, k);
	printf("mixed: %d %a,%d %d,%a %a,%d %d,%a %ld,%a %d,%a,%d\n", k, vdi.d, vdi.i, vid.i, vid.d, vfi.f, vfi.i, vcf.c, vcf.f, vlf.l, vlf.f,
	    vn.a.c[2], vn.b.y, vn.c);
	/* member access on a returned struct, nested calls, assignment chains */
	printf("member: %d %d %d %a %a %d %ld\n", k, r3(v3, 1).c[2], r12(r12(v12, 1), 2).i[2], rdd(vdd, 1).y, rff(rff(vff, 1), 1).x,
	    rid(vid, k).i, r16(v16, 3).l);
	w3 = x3 = r3(v3, 2);
	wdd = xdd = vdd;
	xdd.x = 99;
	printf("chain: %d %d %d %a %a\n", k, w3.c[2], x3.c[0], wdd.x, xdd.x);
	printf("many: %d %ld\n", k, many(v3, k, vff, 2.5, v16, vid, 1L << 33, v12, vdd, v1));
	sum += v1.c + v3.c[2] + v7.c[6] + v8.i + v12.i[2] + (unsigned)v16.l + (unsigned)vdd.y + vfi.i + vn.c + w3.c[2];
}

int main(void)
{
	int k;

	for (k = 0; k <= 4; k++)
		test(k);
	printf("sum: %u\n", sum);
	return sum & 63;
}
