/* small applications: sieve of Eratosthenes, fixed-size matrix multiply/power/transposition, Conway's life on 8x8 */
int printf(const char *, ...);
void *memset(void *, int, unsigned long);
void *memcpy(void *, const void *, unsigned long);

static unsigned sum;

static void sieve(int limit)
{
	static unsigned char composite[201];
	int i, j, count = 0, last = 0;
	long total = 0;

	memset(composite, 0, sizeof composite);
	for (i = 2; i * i <= limit; i++)
		if (!composite[i])
			for (j = i * i; j <= limit; j += i)
				composite[j] = 1;
	for (i = 2; i <= limit; i++)
		if (!composite[i]) {
			count++;
			total += i;
			last = i;
		}
	printf("sieve: %d %d %ld %d\n", limit, count, total, last);
	sum += count + (unsigned)total + last;
}

typedef long mat[3][3];

static void matmul(mat r, mat a, mat b)
{
	mat t;
	int i, j, k;

	for (i = 0; i < 3; i++)
		for (j = 0; j < 3; j++) {
			t[i][j] = 0;
			for (k = 0; k < 3; k++)
				t[i][j] += a[i][k] * b[k][j];
		}
	memcpy(r, t, sizeof t);			/* r may alias a or b */
}

static long trace(mat m) { return m[0][0] + m[1][1] + m[2][2]; }

static void matrices(int n)
{
	mat a = {{1, 1, 0}, {1, 0, 1}, {0, 1, n}};
	mat id = {{1, 0, 0}, {0, 1, 0}, {0, 0, 1}};
	mat p, tr;
	double d[2][4] = {{1, 0.5, 0.25, n}, {2, 4, 8, -n}};
	double e[4][2], prod[2][2] = {{0}};
	int i, j, k;

	memcpy(p, id, sizeof p);
	for (i = 0; i < n + 2; i++)
		matmul(p, p, a);		/* p = a^(n+2) */
	for (i = 0; i < 3; i++)
		for (j = 0; j < 3; j++)
			tr[j][i] = p[i][j];
	printf("matpow: %d %ld %ld %ld %ld %ld\n", n, p[0][0], p[0][2], p[2][0], p[2][2], trace(p));
	matmul(tr, tr, id);
	printf("mattr: %d %ld %ld %d\n", n, tr[0][2], tr[2][0], trace(tr) == trace(p));
	for (i = 0; i < 2; i++)
		for (j = 0; j < 4; j++)
			e[j][i] = d[i][j] * 2;
	for (i = 0; i < 2; i++)
		for (j = 0; j < 2; j++)
			for (k = 0; k < 4; k++)
				prod[i][j] += d[i][k] * e[k][j];
	printf("matdbl: %d %a %a %a %a\n", n, prod[0][0], prod[0][1], prod[1][0], prod[1][1]);
	sum += (unsigned)trace(p) + (unsigned)prod[0][0];
}

static int neighbours(unsigned char g[8][8], int r, int c)
{
	int dr, dc, n = 0;

	for (dr = -1; dr <= 1; dr++)
		for (dc = -1; dc <= 1; dc++)
			if ((dr || dc) && g[(r + dr + 8) % 8][(c + dc + 8) % 8])	/* torus */
				n++;
	return n;
}

static void life(int pattern)
{
	static const char *const seeds[3][8] = {
		{".#......", "..#.....", "###.....", "........", "........", "........", "........", "........"},	/* glider */
		{"........", "........", "..###...", "........", "........", "........", "........", "........"},	/* blinker */
		{"........", "...##...", "..##....", "...#....", "........", "........", "......##", "......##"},	/* r-pentomino + block */
	};
	unsigned char g[8][8], h[8][8];
	int gen, r, c;

	for (r = 0; r < 8; r++)
		for (c = 0; c < 8; c++)
			g[r][c] = seeds[pattern][r][c] == '#';
	for (gen = 0; gen <= 4; gen++) {
		int alive = 0;
		unsigned sig = 0;

		for (r = 0; r < 8; r++)
			for (c = 0; c < 8; c++) {
				alive += g[r][c];
				sig = sig * 31 + g[r][c] * (r * 8 + c + 1);
			}
		printf("life: %d %d %d %u\n", pattern, gen, alive, sig);
		sum += alive + sig;
		for (r = 0; r < 8; r++)
			for (c = 0; c < 8; c++) {
				int n = neighbours(g, r, c);

				h[r][c] = n == 3 || (n == 2 && g[r][c]);
			}
		memcpy(g, h, sizeof g);
	}
	for (r = 0; r < 8; r++) {
		char line[9];

		for (c = 0; c < 8; c++)
			line[c] = g[r][c] ? '#' : '.';
		line[8] = 0;
		printf("board: %d %d %s\n", pattern, r, line);
	}
}

int main(void)
{
	int n;

	for (n = 10; n <= 200; n += 38)
		sieve(n);
	for (n = 0; n <= 4; n++)
		matrices(n);
	for (n = 0; n < 3; n++)
		life(n);
	printf("sum: %u\n", sum);
	return sum & 63;
}
