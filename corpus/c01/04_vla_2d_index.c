/* 2-D VLAs long v[n][n+1]: element stores/loads through v[i][j] only, sizeof of rows */
int printf(const char *, ...);
void *memcpy(void *, const void *, unsigned long);

static unsigned sum;

static void sizes(int n)
{
	long v[n][n + 1];

	v[0][0] = 0;
	printf("sizeof_v: %d %lu\n", n, (unsigned long)sizeof v);
	printf("sizeof_row: %d %lu\n", n, (unsigned long)sizeof v[0]);
	printf("sizeof_elem: %d %lu\n", n, (unsigned long)sizeof v[0][0]);
	printf("nrows: %d %lu\n", n, (unsigned long)(sizeof v / sizeof v[0]));
	printf("ncols: %d %lu\n", n, (unsigned long)(sizeof v[0] / sizeof v[0][0]));
	sum += sizeof v + sizeof v[0];
}

static void store_load(int n)
{
	long v[n][n + 1];
	int i, j;
	long t = 0;

	for (i = 0; i < n; i++)
		for (j = 0; j <= n; j++)
			v[i][j] = i * 100 + j;
	for (i = 0; i < n; i++) {
		long r = 0;
		for (j = 0; j <= n; j++)
			r += v[i][j];
		printf("rowsum: %d %d %ld\n", n, i, r);
		t += r * (i + 1);
	}
	printf("corner: %d %ld %ld %ld %ld\n", n, v[0][0], v[0][n], v[n - 1][0], v[n - 1][n]);
	sum += (unsigned)t;
}

static void flat_view(int n)
{
	/* write through v[i][j], copy the object representation to a flat array and back */
	long v[n][n + 1];
	long flat[20];
	int i, j, k = 0, bad = 0;

	for (i = 0; i < n; i++)
		for (j = 0; j <= n; j++)
			v[i][j] = k++;
	memcpy(flat, v, sizeof v);
	for (k = 0; k < n * (n + 1); k++)
		if (flat[k] != k)
			bad++;
	printf("flat_read: %d %d\n", n, bad);
	for (k = 0; k < n * (n + 1); k++)
		flat[k] = 1000 - k;
	memcpy(v, flat, sizeof v);
	bad = 0;
	for (i = 0; i < n; i++)
		for (j = 0; j <= n; j++)
			if (v[i][j] != 1000 - (i * (n + 1) + j))
				bad++;
	printf("flat_write: %d %d\n", n, bad);
	sum += bad;
}

static void chars2(int n, int m)
{
	char c[n][m];
	int i, j, t = 0;

	for (i = 0; i < n; i++)
		for (j = 0; j < m; j++)
			c[i][j] = (char)(i * m + j);
	for (j = 0; j < m; j++)
		for (i = 0; i < n; i++)
			t = t * 2 + c[i][j];
	printf("chars2: %d %d %lu %lu %d\n", n, m, (unsigned long)sizeof c, (unsigned long)sizeof c[0], t);
	sum += t;
}

static void mixed(int n)
{
	/* one constant dimension, one variable */
	int a[n][3];
	int b[3][n];
	int i, j, t = 0;

	for (i = 0; i < n; i++)
		for (j = 0; j < 3; j++) {
			a[i][j] = i * 3 + j;
			b[j][i] = 100 + j * n + i;
		}
	for (i = 0; i < n; i++)
		for (j = 0; j < 3; j++)
			t += a[i][j] * (j + 1) + b[j][i] * (i + 1);
	printf("mixed: %d %lu %lu %lu %lu %d\n", n, (unsigned long)sizeof a, (unsigned long)sizeof a[0],
	    (unsigned long)sizeof b, (unsigned long)sizeof b[0], t);
	sum += t;
}

int main(void)
{
	int n, m;

	for (n = 1; n <= 4; n++)
		sizes(n);
	for (n = 1; n <= 4; n++)
		store_load(n);
	for (n = 1; n <= 4; n++)
		flat_view(n);
	for (n = 1; n <= 3; n++)
		for (m = 1; m <= 3; m++)
			chars2(n, m);
	for (n = 1; n <= 4; n++)
		mixed(n);
	printf("sum: %u\n", sum);
	return sum & 63;
}
