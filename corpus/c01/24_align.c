/* over-aligned locals: _Alignas(32) arrays, _Alignas(64) structs, several per function, in loops, with VLAs and alloca */
int printf(const char *, ...);
void *memset(void *, int, unsigned long);

struct blk { char tag; long v[3]; };
struct al64 { _Alignas(64) int first; char rest[60]; };	/* member alignment makes the type 64-aligned, size 64 */

static unsigned sum;

static int al(const void *p, unsigned long a) { return (unsigned long)p % a == 0; }

static int total(const unsigned char *p, int n)
{
	int t = 0;

	while (n-- > 0)
		t += *p++;
	return t;
}

static void one(int n)
{
	_Alignas(32) char buf[40];

	memset(buf, n, sizeof buf);
	printf("one: %d %d %d %lu\n", n, al(buf, 32), total((unsigned char *)buf, sizeof buf), (unsigned long)sizeof buf);
	sum += total((unsigned char *)buf, sizeof buf);
}

static void several(int n)
{
	char pad1 = (char)n;
	_Alignas(32) char a[33];
	char pad2 = (char)(n + 1);
	_Alignas(64) struct blk b;
	short pad3 = (short)(n + 2);
	_Alignas(16) double d[3];
	_Alignas(64) char c[1];
	_Alignas(32) int i32 = n * 7;
	struct al64 s;

	memset(a, n + 1, sizeof a);
	memset(&b, n + 2, sizeof b);
	memset(&s, n + 3, sizeof s);
	d[0] = d[1] = d[2] = n + 0.5;
	c[0] = (char)(n + 4);
	printf("several_al: %d %d %d %d %d %d %d\n", n, al(a, 32), al(&b, 64), al(d, 16), al(c, 64), al(&i32, 32), al(&s, 64));
	printf("several_val: %d %d %d %d %d %d %d %a %d %d\n", n, pad1, pad2, pad3, total((unsigned char *)a, sizeof a),
	    total((unsigned char *)&b, sizeof b), total((unsigned char *)&s, sizeof s), d[0] + d[1] + d[2], c[0], i32);
	printf("several_size: %lu %lu %lu %lu\n", (unsigned long)sizeof a, (unsigned long)sizeof b, (unsigned long)sizeof s,
	    (unsigned long)_Alignof(struct al64));
	sum += total((unsigned char *)a, sizeof a) + total((unsigned char *)&s, sizeof s) + i32 + pad1 + pad2 + pad3;
}

static void inloop(int n)
{
	int i, ok = 0, t = 0;

	for (i = 0; i < n; i++) {
		_Alignas(64) unsigned char w[64 + 1];
		_Alignas(32) long l[5];
		int j;

		memset(w, i + 1, sizeof w);
		for (j = 0; j < 5; j++)
			l[j] = (long)i * j;
		ok += al(w, 64) + al(l, 32);
		t += total(w, sizeof w) + (int)l[4];
	}
	printf("inloop: %d %d %d\n", n, ok, t);
	sum += ok + t;
}

static void with_vla(int n)
{
	int v[n];
	_Alignas(64) char a[70];
	char *p = __builtin_alloca(n * 5 + 1);
	_Alignas(32) short h[n > 2 ? 17 : 3];		/* over-aligned VLA */
	int i, t = 0;

	for (i = 0; i < n; i++)
		v[i] = i;
	memset(a, n, sizeof a);
	memset(p, n + 1, n * 5 + 1);
	memset(h, 1, sizeof h);
	for (i = 0; i < n; i++)
		t += v[i] + p[i * 5];
	printf("with_vla: %d %d %d %d %d %lu\n", n, al(a, 64), al(h, 32), t + total((unsigned char *)a, sizeof a), h[0],
	    (unsigned long)sizeof h);
	sum += t + h[0];
}

static int nested(int n)
{
	/* recursion: every frame's aligned object is aligned and intact */
	_Alignas(64) int me[16];
	int i, r = 0;

	for (i = 0; i < 16; i++)
		me[i] = n + i;
	if (n > 0)
		r = nested(n - 1);
	for (i = 0; i < 16; i++)
		if (me[i] != n + i)
			return -1;
	return r * 2 + al(me, 64);
}

static struct al64 byvalue(struct al64 s, int k)
{
	s.first += k;
	s.rest[59] = (char)k;
	return s;
}

int main(void)
{
	struct al64 s;
	int n;

	for (n = 0; n <= 3; n++) {
		one(n);
		several(n);
		inloop(n + 1);
		with_vla(n + 1);
	}
	printf("nested: %d %d\n", nested(0), nested(5));
	memset(&s, 0, sizeof s);
	s = byvalue(s, 9);
	s = byvalue(s, 4);
	printf("byvalue: %d %d %d %d\n", s.first, s.rest[59], s.rest[0], al(&s, 64));
	sum += s.first;
	printf("sum: %u\n", sum);
	return sum & 63;
}
