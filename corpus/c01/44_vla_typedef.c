/* the size of a variably modified typedef is fixed where the typedef is: later changes of n, first use in one branch */
int printf(const char *, ...);
int f(int n) { typedef int T[n]; n = 100; T a; return sizeof a; }
int g(int c, int n) { typedef int T[n]; if (c) { T a; a[0] = 1; return sizeof a + a[0]; } else { T b; b[0] = 2; return sizeof b + b[0]; } }
int h(int n) { typedef char R[n][n + 1]; n++; R *p = 0; return sizeof *p + sizeof(R); }
int main(void) { printf("%d %d %d %d\n", f(3), g(0, 5), g(1, 6), h(4)); return 0; }
