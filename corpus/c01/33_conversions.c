/* integer/floating conversions in idiomatic code: division sign rules, wraparound, char arithmetic, mixed comparisons */
int printf(const char *, ...);

static unsigned sum;

static void divmod(int a, int b)
{
	/* truncation toward zero; (a/b)*b + a%b == a */
	int q = a / b, r = a % b;
	unsigned uq = (unsigned)a / (unsigned)b, ur = (unsigned)a % (unsigned)b;
	long lq = (long)a / b;
	long long mix = a / (long long)b * 3 + a % b;

	printf("divmod: %d %d %d %d %d %u %u %ld %lld\n", a, b, q, r, q * b + r == a, uq, ur, lq, mix);
	sum += q + r + uq + ur;
}

static void wrap(unsigned n)
{
	unsigned u = 0u - n;			/* wraps modulo 2^32 */
	unsigned char uc = (unsigned char)(250 + n);
	unsigned short us = (unsigned short)(65530u + n * 3);
	unsigned long ul = 0ul - n;
	unsigned prod = 0x10001u * (0xffff0000u + n);
	unsigned sh = (0x80000001u + n) << 1;
	unsigned long widen = u;		/* zero extension */
	long swiden = (int)u;			/* sign extension of the converted value */

	printf("wrap: %u %u %u %u %lu %u %u %lu %ld\n", n, u, uc, us, ul, prod, sh, widen, swiden);
	sum += u + uc + us + (unsigned)ul + prod + sh;
}

static void chars(int n)
{
	char c = (char)('a' + n);
	signed char sc = (signed char)(n * 40 - 100);
	unsigned char uc = (unsigned char)(n * 40 + 100);
	char up = (char)(c - 'a' + 'A');
	int digit = '0' + n % 10;
	int diff = uc - sc;			/* both promoted to int */
	int prod = sc * uc;
	char neg = (char)-n;
	unsigned asu = (unsigned)sc;		/* sign-extends, then converts */
	unsigned char trunc = (unsigned char)(n * 100);
	int cmp = (sc < uc) + 2 * (c == 'a' + n) + 4 * ((char)200 < 0) + 8 * ((unsigned char)200 > 0);

	printf("chars: %d %c %d %u %c %c %d %d %d %u %u %d\n", n, c, sc, uc, up, digit, diff, prod, neg, asu, trunc, cmp);
	sum += c + sc + uc + diff + prod + asu + trunc + cmp;
}

static void floats(int n)
{
	float f = 0;
	double d = 0;
	int i;
	float third = 1.0f / 4 * n;		/* exact: multiples of 0.25 */
	double mixed = n / 2 + n / 2.0 + (float)n / 4;	/* int division, then double, then float */
	int back = (int)(n * 2.75);		/* truncates toward zero */
	int backneg = (int)(n * -2.75);
	unsigned ub = (unsigned)(n * 1000.5);
	long big = (long)(n * 4294967296.0);
	float fromlong = (float)(16777216L + n * 2);	/* exactly representable even values */
	double fromul = (double)(0x8000000000000000UL >> n);
	float fromu = (float)(0x80000000u >> n);
	double neg0 = -0.0 * n;

	for (i = 0; i < n * 8; i++) {
		f += 0.125f;			/* exact binary fractions: float and double agree */
		d += 0.125;
	}
	printf("floats: %d %a %a %d %a %a\n", n, f, d, f == d, third, mixed);
	printf("fromfloat: %d %d %d %u %ld\n", n, back, backneg, ub, big);
	printf("tofloat: %d %a %a %a %a %d\n", n, fromlong, fromul, fromu, neg0, 1 / 2 * n);
	printf("fcmp: %d %d %d %d %d\n", n, f < n, f == n, (float)0.1 == 0.1, 0.5f == 0.5);
	sum += (unsigned)f + back + backneg + ub + (unsigned)(big >> 32);
}

static void compare(int s, unsigned u)
{
	/* the usual arithmetic conversions: int vs unsigned compares as unsigned, int vs long as long */
	long l = s;
	unsigned long ul = u;
	short sh = (short)s;
	unsigned short ush = (unsigned short)u;
	int r1 = s < u;				/* s converted to unsigned */
	int r2 = l < u;				/* u converted to long */
	int r3 = s < ul;			/* s converted to unsigned long */
	int r4 = sh < ush;			/* both int */
	int r5 = s == (int)u;
	int r6 = (unsigned)s == u;
	int r7 = s < (long)u;
	int r8 = -1 < 0u;
	int r9 = -1L < 0u;			/* long can represent all unsigned: signed compare */

	printf("compare: %d %u %d %d %d %d %d %d %d %d %d\n", s, u, r1, r2, r3, r4, r5, r6, r7, r8, r9);
	sum += r1 + r2 * 2 + r3 * 4 + r4 * 8 + r5 * 16 + r6 * 32 + r7 * 64;
}

static void chains(int n)
{
	char c = (char)n;
	short s = (short)(n * 1000);
	int i = n * 100000;
	long l = (long)i * i;			/* computed in long */
	long long ll = c + s + i + l;
	unsigned u = c * s;			/* int arithmetic, then converted */
	double d = c / 2 + s / 2.0f + i % 7 + l / 3;
	float f = (float)(s * 0.5);
	unsigned long mask = ~0u;		/* ~ in unsigned, zero-extended */
	unsigned long mask2 = ~0;		/* ~ in int (-1), sign-extended */
	long shifted = 1 << 30;
	long shifted2 = 1L << 40;
	int ternary = sizeof(n ? c : l) + sizeof(n ? 1 : 1u) + sizeof(n ? f : d) + sizeof(c + c);

	printf("chains: %d %lld %u %a %a %#lx %#lx %ld %ld %d\n", n, ll, u, d, f, mask, mask2, shifted, shifted2, ternary);
	sum += (unsigned)ll + u + ternary;
}

int main(void)
{
	static const unsigned us[] = {0, 1, 0x7fffffff, 0x80000000u, 0xffffffffu};
	int a, b;

	for (a = -7; a <= 7; a += 7)
		for (b = -3; b <= 3; b++)
			if (b)
				divmod(a + b, b);
	for (a = 0; a <= 6; a++) {
		wrap(a);
		chars(a);
		floats(a);
		chains(a - 3);
	}
	for (a = -1; a <= 1; a++)
		for (b = 0; b < 5; b++)
			compare(a * 5, us[b]);
	compare(-2147483647 - 1, 0x80000000u);
	printf("sum: %u\n", sum);
	return sum & 63;
}
