/* floating constants in function bodies (not in static initialisers): the value must be the literal rounded once to its type */
int printf(const char *, ...);
static unsigned long long dbits(double d) { union { double d; unsigned long long u; } x; x.d = d; return x.u; }
static unsigned fbits(float f) { union { float f; unsigned u; } x; x.f = f; return x.u; }
static double kd0(void) { return 0.1; }
static double nd0(void) { return -0.1; }
static const double sd0 = 0.1;
static int ed0(void) { return sd0 == 0.1; }
static int ld0(double x) { return x < 0.1; }
static double ad0(double x) { return x + 0.1; }
static double kd1(void) { return 0.2; }
static double nd1(void) { return -0.2; }
static const double sd1 = 0.2;
static int ed1(void) { return sd1 == 0.2; }
static int ld1(double x) { return x < 0.2; }
static double ad1(double x) { return x + 0.2; }
static double kd2(void) { return 0.3; }
static double nd2(void) { return -0.3; }
static const double sd2 = 0.3;
static int ed2(void) { return sd2 == 0.3; }
static int ld2(double x) { return x < 0.3; }
static double ad2(double x) { return x + 0.3; }
static double kd3(void) { return 0.7; }
static double nd3(void) { return -0.7; }
static const double sd3 = 0.7;
static int ed3(void) { return sd3 == 0.7; }
static int ld3(double x) { return x < 0.7; }
static double ad3(double x) { return x + 0.7; }
static double kd4(void) { return 1.1; }
static double nd4(void) { return -1.1; }
static const double sd4 = 1.1;
static int ed4(void) { return sd4 == 1.1; }
static int ld4(double x) { return x < 1.1; }
static double ad4(double x) { return x + 1.1; }
static double kd5(void) { return 0.333333333333333314829616256247; }
static double nd5(void) { return -0.333333333333333314829616256247; }
static const double sd5 = 0.333333333333333314829616256247;
static int ed5(void) { return sd5 == 0.333333333333333314829616256247; }
static int ld5(double x) { return x < 0.333333333333333314829616256247; }
static double ad5(double x) { return x + 0.333333333333333314829616256247; }
static double kd6(void) { return 3.14159265358979323846; }
static double nd6(void) { return -3.14159265358979323846; }
static const double sd6 = 3.14159265358979323846;
static int ed6(void) { return sd6 == 3.14159265358979323846; }
static int ld6(double x) { return x < 3.14159265358979323846; }
static double ad6(double x) { return x + 3.14159265358979323846; }
static double kd7(void) { return 2.7182818284590452354; }
static double nd7(void) { return -2.7182818284590452354; }
static const double sd7 = 2.7182818284590452354;
static int ed7(void) { return sd7 == 2.7182818284590452354; }
static int ld7(double x) { return x < 2.7182818284590452354; }
static double ad7(double x) { return x + 2.7182818284590452354; }
static double kd8(void) { return 1.4142135623730950488; }
static double nd8(void) { return -1.4142135623730950488; }
static const double sd8 = 1.4142135623730950488;
static int ed8(void) { return sd8 == 1.4142135623730950488; }
static int ld8(double x) { return x < 1.4142135623730950488; }
static double ad8(double x) { return x + 1.4142135623730950488; }
static double kd9(void) { return 1.7976931348623157e308; }
static double nd9(void) { return -1.7976931348623157e308; }
static const double sd9 = 1.7976931348623157e308;
static int ed9(void) { return sd9 == 1.7976931348623157e308; }
static int ld9(double x) { return x < 1.7976931348623157e308; }
static double ad9(double x) { return x + 1.7976931348623157e308; }
static double kd10(void) { return 2.2250738585072014e-308; }
static double nd10(void) { return -2.2250738585072014e-308; }
static const double sd10 = 2.2250738585072014e-308;
static int ed10(void) { return sd10 == 2.2250738585072014e-308; }
static int ld10(double x) { return x < 2.2250738585072014e-308; }
static double ad10(double x) { return x + 2.2250738585072014e-308; }
static double kd11(void) { return 4.9406564584124654e-324; }
static double nd11(void) { return -4.9406564584124654e-324; }
static const double sd11 = 4.9406564584124654e-324;
static int ed11(void) { return sd11 == 4.9406564584124654e-324; }
static int ld11(double x) { return x < 4.9406564584124654e-324; }
static double ad11(double x) { return x + 4.9406564584124654e-324; }
static double kd12(void) { return 2.2204460492503131e-16; }
static double nd12(void) { return -2.2204460492503131e-16; }
static const double sd12 = 2.2204460492503131e-16;
static int ed12(void) { return sd12 == 2.2204460492503131e-16; }
static int ld12(double x) { return x < 2.2204460492503131e-16; }
static double ad12(double x) { return x + 2.2204460492503131e-16; }
static double kd13(void) { return 9007199254740991.0; }
static double nd13(void) { return -9007199254740991.0; }
static const double sd13 = 9007199254740991.0;
static int ed13(void) { return sd13 == 9007199254740991.0; }
static int ld13(double x) { return x < 9007199254740991.0; }
static double ad13(double x) { return x + 9007199254740991.0; }
static double kd14(void) { return 9007199254740993.0; }
static double nd14(void) { return -9007199254740993.0; }
static const double sd14 = 9007199254740993.0;
static int ed14(void) { return sd14 == 9007199254740993.0; }
static int ld14(double x) { return x < 9007199254740993.0; }
static double ad14(double x) { return x + 9007199254740993.0; }
static double kd15(void) { return 9007199254740992.0; }
static double nd15(void) { return -9007199254740992.0; }
static const double sd15 = 9007199254740992.0;
static int ed15(void) { return sd15 == 9007199254740992.0; }
static int ld15(double x) { return x < 9007199254740992.0; }
static double ad15(double x) { return x + 9007199254740992.0; }
static double kd16(void) { return 1e22; }
static double nd16(void) { return -1e22; }
static const double sd16 = 1e22;
static int ed16(void) { return sd16 == 1e22; }
static int ld16(double x) { return x < 1e22; }
static double ad16(double x) { return x + 1e22; }
static double kd17(void) { return 1e23; }
static double nd17(void) { return -1e23; }
static const double sd17 = 1e23;
static int ed17(void) { return sd17 == 1e23; }
static int ld17(double x) { return x < 1e23; }
static double ad17(double x) { return x + 1e23; }
static double kd18(void) { return 123456789.123456789; }
static double nd18(void) { return -123456789.123456789; }
static const double sd18 = 123456789.123456789;
static int ed18(void) { return sd18 == 123456789.123456789; }
static int ld18(double x) { return x < 123456789.123456789; }
static double ad18(double x) { return x + 123456789.123456789; }
static double kd19(void) { return 0.000123456789012345678; }
static double nd19(void) { return -0.000123456789012345678; }
static const double sd19 = 0.000123456789012345678;
static int ed19(void) { return sd19 == 0.000123456789012345678; }
static int ld19(double x) { return x < 0.000123456789012345678; }
static double ad19(double x) { return x + 0.000123456789012345678; }
static double kd20(void) { return 6.02214076e23; }
static double nd20(void) { return -6.02214076e23; }
static const double sd20 = 6.02214076e23;
static int ed20(void) { return sd20 == 6.02214076e23; }
static int ld20(double x) { return x < 6.02214076e23; }
static double ad20(double x) { return x + 6.02214076e23; }
static double kd21(void) { return 1.602176634e-19; }
static double nd21(void) { return -1.602176634e-19; }
static const double sd21 = 1.602176634e-19;
static int ed21(void) { return sd21 == 1.602176634e-19; }
static int ld21(double x) { return x < 1.602176634e-19; }
static double ad21(double x) { return x + 1.602176634e-19; }
static double kd22(void) { return 299792458.0; }
static double nd22(void) { return -299792458.0; }
static const double sd22 = 299792458.0;
static int ed22(void) { return sd22 == 299792458.0; }
static int ld22(double x) { return x < 299792458.0; }
static double ad22(double x) { return x + 299792458.0; }
static double kd23(void) { return 1.0000000000000002; }
static double nd23(void) { return -1.0000000000000002; }
static const double sd23 = 1.0000000000000002;
static int ed23(void) { return sd23 == 1.0000000000000002; }
static int ld23(double x) { return x < 1.0000000000000002; }
static double ad23(double x) { return x + 1.0000000000000002; }
static double kd24(void) { return 0.99999999999999989; }
static double nd24(void) { return -0.99999999999999989; }
static const double sd24 = 0.99999999999999989;
static int ed24(void) { return sd24 == 0.99999999999999989; }
static int ld24(double x) { return x < 0.99999999999999989; }
static double ad24(double x) { return x + 0.99999999999999989; }
static double kd25(void) { return 4503599627370497.5; }
static double nd25(void) { return -4503599627370497.5; }
static const double sd25 = 4503599627370497.5;
static int ed25(void) { return sd25 == 4503599627370497.5; }
static int ld25(double x) { return x < 4503599627370497.5; }
static double ad25(double x) { return x + 4503599627370497.5; }
static double kd26(void) { return 0x1.fffffffffffffp+1023; }
static double nd26(void) { return -0x1.fffffffffffffp+1023; }
static const double sd26 = 0x1.fffffffffffffp+1023;
static int ed26(void) { return sd26 == 0x1.fffffffffffffp+1023; }
static int ld26(double x) { return x < 0x1.fffffffffffffp+1023; }
static double ad26(double x) { return x + 0x1.fffffffffffffp+1023; }
static double kd27(void) { return 0x1p-1074; }
static double nd27(void) { return -0x1p-1074; }
static const double sd27 = 0x1p-1074;
static int ed27(void) { return sd27 == 0x1p-1074; }
static int ld27(double x) { return x < 0x1p-1074; }
static double ad27(double x) { return x + 0x1p-1074; }
static double kd28(void) { return 0x1.921fb54442d18p+1; }
static double nd28(void) { return -0x1.921fb54442d18p+1; }
static const double sd28 = 0x1.921fb54442d18p+1;
static int ed28(void) { return sd28 == 0x1.921fb54442d18p+1; }
static int ld28(double x) { return x < 0x1.921fb54442d18p+1; }
static double ad28(double x) { return x + 0x1.921fb54442d18p+1; }
static double kd29(void) { return 1e-320; }
static double nd29(void) { return -1e-320; }
static const double sd29 = 1e-320;
static int ed29(void) { return sd29 == 1e-320; }
static int ld29(double x) { return x < 1e-320; }
static double ad29(double x) { return x + 1e-320; }
static double kd30(void) { return 1234567890123456789.0; }
static double nd30(void) { return -1234567890123456789.0; }
static const double sd30 = 1234567890123456789.0;
static int ed30(void) { return sd30 == 1234567890123456789.0; }
static int ld30(double x) { return x < 1234567890123456789.0; }
static double ad30(double x) { return x + 1234567890123456789.0; }
static double kd31(void) { return 0.1e1; }
static double nd31(void) { return -0.1e1; }
static const double sd31 = 0.1e1;
static int ed31(void) { return sd31 == 0.1e1; }
static int ld31(double x) { return x < 0.1e1; }
static double ad31(double x) { return x + 0.1e1; }
static double kd32(void) { return 18446744073709551615.0; }
static double nd32(void) { return -18446744073709551615.0; }
static const double sd32 = 18446744073709551615.0;
static int ed32(void) { return sd32 == 18446744073709551615.0; }
static int ld32(double x) { return x < 18446744073709551615.0; }
static double ad32(double x) { return x + 18446744073709551615.0; }
static double kd33(void) { return 9223372036854775807.0; }
static double nd33(void) { return -9223372036854775807.0; }
static const double sd33 = 9223372036854775807.0;
static int ed33(void) { return sd33 == 9223372036854775807.0; }
static int ld33(double x) { return x < 9223372036854775807.0; }
static double ad33(double x) { return x + 9223372036854775807.0; }
static double kd34(void) { return 1e15; }
static double nd34(void) { return -1e15; }
static const double sd34 = 1e15;
static int ed34(void) { return sd34 == 1e15; }
static int ld34(double x) { return x < 1e15; }
static double ad34(double x) { return x + 1e15; }
static double kd35(void) { return 1e16; }
static double nd35(void) { return -1e16; }
static const double sd35 = 1e16;
static int ed35(void) { return sd35 == 1e16; }
static int ld35(double x) { return x < 1e16; }
static double ad35(double x) { return x + 1e16; }
static double kd36(void) { return 1e17; }
static double nd36(void) { return -1e17; }
static const double sd36 = 1e17;
static int ed36(void) { return sd36 == 1e17; }
static int ld36(double x) { return x < 1e17; }
static double ad36(double x) { return x + 1e17; }
static double kd37(void) { return 5e-324; }
static double nd37(void) { return -5e-324; }
static const double sd37 = 5e-324;
static int ed37(void) { return sd37 == 5e-324; }
static int ld37(double x) { return x < 5e-324; }
static double ad37(double x) { return x + 5e-324; }
static double kd38(void) { return 8.9884656743115795e307; }
static double nd38(void) { return -8.9884656743115795e307; }
static const double sd38 = 8.9884656743115795e307;
static int ed38(void) { return sd38 == 8.9884656743115795e307; }
static int ld38(double x) { return x < 8.9884656743115795e307; }
static double ad38(double x) { return x + 8.9884656743115795e307; }
static double kd39(void) { return 100000000000000000000000.0; }
static double nd39(void) { return -100000000000000000000000.0; }
static const double sd39 = 100000000000000000000000.0;
static int ed39(void) { return sd39 == 100000000000000000000000.0; }
static int ld39(double x) { return x < 100000000000000000000000.0; }
static double ad39(double x) { return x + 100000000000000000000000.0; }
static double kd40(void) { return 0.30000000000000004; }
static double nd40(void) { return -0.30000000000000004; }
static const double sd40 = 0.30000000000000004;
static int ed40(void) { return sd40 == 0.30000000000000004; }
static int ld40(double x) { return x < 0.30000000000000004; }
static double ad40(double x) { return x + 0.30000000000000004; }
static double kd41(void) { return 2.5e-5; }
static double nd41(void) { return -2.5e-5; }
static const double sd41 = 2.5e-5;
static int ed41(void) { return sd41 == 2.5e-5; }
static int ld41(double x) { return x < 2.5e-5; }
static double ad41(double x) { return x + 2.5e-5; }
static double kd42(void) { return 7.0e-10; }
static double nd42(void) { return -7.0e-10; }
static const double sd42 = 7.0e-10;
static int ed42(void) { return sd42 == 7.0e-10; }
static int ld42(double x) { return x < 7.0e-10; }
static double ad42(double x) { return x + 7.0e-10; }
static double kd43(void) { return 65535.99999999999; }
static double nd43(void) { return -65535.99999999999; }
static const double sd43 = 65535.99999999999;
static int ed43(void) { return sd43 == 65535.99999999999; }
static int ld43(double x) { return x < 65535.99999999999; }
static double ad43(double x) { return x + 65535.99999999999; }
static double kd44(void) { return 1.0e-7; }
static double nd44(void) { return -1.0e-7; }
static const double sd44 = 1.0e-7;
static int ed44(void) { return sd44 == 1.0e-7; }
static int ld44(double x) { return x < 1.0e-7; }
static double ad44(double x) { return x + 1.0e-7; }
static float kf0(void) { return 0.1f; }
static const float sf0 = 0.1f;
static int ef0(void) { return sf0 == 0.1f; }
static double wf0(void) { return 0.1f; }
static float mf0(float x) { return x * 0.1f; }
static float kf1(void) { return 0.2f; }
static const float sf1 = 0.2f;
static int ef1(void) { return sf1 == 0.2f; }
static double wf1(void) { return 0.2f; }
static float mf1(float x) { return x * 0.2f; }
static float kf2(void) { return 0.3f; }
static const float sf2 = 0.3f;
static int ef2(void) { return sf2 == 0.3f; }
static double wf2(void) { return 0.3f; }
static float mf2(float x) { return x * 0.3f; }
static float kf3(void) { return 16777216.0f; }
static const float sf3 = 16777216.0f;
static int ef3(void) { return sf3 == 16777216.0f; }
static double wf3(void) { return 16777216.0f; }
static float mf3(float x) { return x * 16777216.0f; }
static float kf4(void) { return 16777217.0f; }
static const float sf4 = 16777217.0f;
static int ef4(void) { return sf4 == 16777217.0f; }
static double wf4(void) { return 16777217.0f; }
static float mf4(float x) { return x * 16777217.0f; }
static float kf5(void) { return 3.4028234663852886e38f; }
static const float sf5 = 3.4028234663852886e38f;
static int ef5(void) { return sf5 == 3.4028234663852886e38f; }
static double wf5(void) { return 3.4028234663852886e38f; }
static float mf5(float x) { return x * 3.4028234663852886e38f; }
static float kf6(void) { return 1.17549435e-38f; }
static const float sf6 = 1.17549435e-38f;
static int ef6(void) { return sf6 == 1.17549435e-38f; }
static double wf6(void) { return 1.17549435e-38f; }
static float mf6(float x) { return x * 1.17549435e-38f; }
static float kf7(void) { return 1.401298464e-45f; }
static const float sf7 = 1.401298464e-45f;
static int ef7(void) { return sf7 == 1.401298464e-45f; }
static double wf7(void) { return 1.401298464e-45f; }
static float mf7(float x) { return x * 1.401298464e-45f; }
static float kf8(void) { return 3.14159265358979323846f; }
static const float sf8 = 3.14159265358979323846f;
static int ef8(void) { return sf8 == 3.14159265358979323846f; }
static double wf8(void) { return 3.14159265358979323846f; }
static float mf8(float x) { return x * 3.14159265358979323846f; }
static float kf9(void) { return 1e10f; }
static const float sf9 = 1e10f;
static int ef9(void) { return sf9 == 1e10f; }
static double wf9(void) { return 1e10f; }
static float mf9(float x) { return x * 1e10f; }
static float kf10(void) { return 0.333333343f; }
static const float sf10 = 0.333333343f;
static int ef10(void) { return sf10 == 0.333333343f; }
static double wf10(void) { return 0.333333343f; }
static float mf10(float x) { return x * 0.333333343f; }
static float kf11(void) { return 1.00000012f; }
static const float sf11 = 1.00000012f;
static int ef11(void) { return sf11 == 1.00000012f; }
static double wf11(void) { return 1.00000012f; }
static float mf11(float x) { return x * 1.00000012f; }
static float kf12(void) { return 0x1.fffffep+127f; }
static const float sf12 = 0x1.fffffep+127f;
static int ef12(void) { return sf12 == 0x1.fffffep+127f; }
static double wf12(void) { return 0x1.fffffep+127f; }
static float mf12(float x) { return x * 0x1.fffffep+127f; }
static float kf13(void) { return 0x1p-149f; }
static const float sf13 = 0x1p-149f;
static int ef13(void) { return sf13 == 0x1p-149f; }
static double wf13(void) { return 0x1p-149f; }
static float mf13(float x) { return x * 0x1p-149f; }
static float kf14(void) { return 123456.789f; }
static const float sf14 = 123456.789f;
static int ef14(void) { return sf14 == 123456.789f; }
static double wf14(void) { return 123456.789f; }
static float mf14(float x) { return x * 123456.789f; }
static float kf15(void) { return 1e-10f; }
static const float sf15 = 1e-10f;
static int ef15(void) { return sf15 == 1e-10f; }
static double wf15(void) { return 1e-10f; }
static float mf15(float x) { return x * 1e-10f; }
static float kf16(void) { return 8388608.5f; }
static const float sf16 = 8388608.5f;
static int ef16(void) { return sf16 == 8388608.5f; }
static double wf16(void) { return 8388608.5f; }
static float mf16(float x) { return x * 8388608.5f; }
static float kf17(void) { return 0.5000001f; }
static const float sf17 = 0.5000001f;
static int ef17(void) { return sf17 == 0.5000001f; }
static double wf17(void) { return 0.5000001f; }
static float mf17(float x) { return x * 0.5000001f; }
static float kf18(void) { return 33554431.0f; }
static const float sf18 = 33554431.0f;
static int ef18(void) { return sf18 == 33554431.0f; }
static double wf18(void) { return 33554431.0f; }
static float mf18(float x) { return x * 33554431.0f; }
static float kf19(void) { return 1.1920929e-7f; }
static const float sf19 = 1.1920929e-7f;
static int ef19(void) { return sf19 == 1.1920929e-7f; }
static double wf19(void) { return 1.1920929e-7f; }
static float mf19(float x) { return x * 1.1920929e-7f; }
int main(void) {
	printf("d0 %llx %llx %d %d %llx\n", dbits(kd0()), dbits(nd0()), ed0(), ld0(sd0), dbits(ad0(1.0)));
	printf("d1 %llx %llx %d %d %llx\n", dbits(kd1()), dbits(nd1()), ed1(), ld1(sd1), dbits(ad1(1.0)));
	printf("d2 %llx %llx %d %d %llx\n", dbits(kd2()), dbits(nd2()), ed2(), ld2(sd2), dbits(ad2(1.0)));
	printf("d3 %llx %llx %d %d %llx\n", dbits(kd3()), dbits(nd3()), ed3(), ld3(sd3), dbits(ad3(1.0)));
	printf("d4 %llx %llx %d %d %llx\n", dbits(kd4()), dbits(nd4()), ed4(), ld4(sd4), dbits(ad4(1.0)));
	printf("d5 %llx %llx %d %d %llx\n", dbits(kd5()), dbits(nd5()), ed5(), ld5(sd5), dbits(ad5(1.0)));
	printf("d6 %llx %llx %d %d %llx\n", dbits(kd6()), dbits(nd6()), ed6(), ld6(sd6), dbits(ad6(1.0)));
	printf("d7 %llx %llx %d %d %llx\n", dbits(kd7()), dbits(nd7()), ed7(), ld7(sd7), dbits(ad7(1.0)));
	printf("d8 %llx %llx %d %d %llx\n", dbits(kd8()), dbits(nd8()), ed8(), ld8(sd8), dbits(ad8(1.0)));
	printf("d9 %llx %llx %d %d %llx\n", dbits(kd9()), dbits(nd9()), ed9(), ld9(sd9), dbits(ad9(1.0)));
	printf("d10 %llx %llx %d %d %llx\n", dbits(kd10()), dbits(nd10()), ed10(), ld10(sd10), dbits(ad10(1.0)));
	printf("d11 %llx %llx %d %d %llx\n", dbits(kd11()), dbits(nd11()), ed11(), ld11(sd11), dbits(ad11(1.0)));
	printf("d12 %llx %llx %d %d %llx\n", dbits(kd12()), dbits(nd12()), ed12(), ld12(sd12), dbits(ad12(1.0)));
	printf("d13 %llx %llx %d %d %llx\n", dbits(kd13()), dbits(nd13()), ed13(), ld13(sd13), dbits(ad13(1.0)));
	printf("d14 %llx %llx %d %d %llx\n", dbits(kd14()), dbits(nd14()), ed14(), ld14(sd14), dbits(ad14(1.0)));
	printf("d15 %llx %llx %d %d %llx\n", dbits(kd15()), dbits(nd15()), ed15(), ld15(sd15), dbits(ad15(1.0)));
	printf("d16 %llx %llx %d %d %llx\n", dbits(kd16()), dbits(nd16()), ed16(), ld16(sd16), dbits(ad16(1.0)));
	printf("d17 %llx %llx %d %d %llx\n", dbits(kd17()), dbits(nd17()), ed17(), ld17(sd17), dbits(ad17(1.0)));
	printf("d18 %llx %llx %d %d %llx\n", dbits(kd18()), dbits(nd18()), ed18(), ld18(sd18), dbits(ad18(1.0)));
	printf("d19 %llx %llx %d %d %llx\n", dbits(kd19()), dbits(nd19()), ed19(), ld19(sd19), dbits(ad19(1.0)));
	printf("d20 %llx %llx %d %d %llx\n", dbits(kd20()), dbits(nd20()), ed20(), ld20(sd20), dbits(ad20(1.0)));
	printf("d21 %llx %llx %d %d %llx\n", dbits(kd21()), dbits(nd21()), ed21(), ld21(sd21), dbits(ad21(1.0)));
	printf("d22 %llx %llx %d %d %llx\n", dbits(kd22()), dbits(nd22()), ed22(), ld22(sd22), dbits(ad22(1.0)));
	printf("d23 %llx %llx %d %d %llx\n", dbits(kd23()), dbits(nd23()), ed23(), ld23(sd23), dbits(ad23(1.0)));
	printf("d24 %llx %llx %d %d %llx\n", dbits(kd24()), dbits(nd24()), ed24(), ld24(sd24), dbits(ad24(1.0)));
	printf("d25 %llx %llx %d %d %llx\n", dbits(kd25()), dbits(nd25()), ed25(), ld25(sd25), dbits(ad25(1.0)));
	printf("d26 %llx %llx %d %d %llx\n", dbits(kd26()), dbits(nd26()), ed26(), ld26(sd26), dbits(ad26(1.0)));
	printf("d27 %llx %llx %d %d %llx\n", dbits(kd27()), dbits(nd27()), ed27(), ld27(sd27), dbits(ad27(1.0)));
	printf("d28 %llx %llx %d %d %llx\n", dbits(kd28()), dbits(nd28()), ed28(), ld28(sd28), dbits(ad28(1.0)));
	printf("d29 %llx %llx %d %d %llx\n", dbits(kd29()), dbits(nd29()), ed29(), ld29(sd29), dbits(ad29(1.0)));
	printf("d30 %llx %llx %d %d %llx\n", dbits(kd30()), dbits(nd30()), ed30(), ld30(sd30), dbits(ad30(1.0)));
	printf("d31 %llx %llx %d %d %llx\n", dbits(kd31()), dbits(nd31()), ed31(), ld31(sd31), dbits(ad31(1.0)));
	printf("d32 %llx %llx %d %d %llx\n", dbits(kd32()), dbits(nd32()), ed32(), ld32(sd32), dbits(ad32(1.0)));
	printf("d33 %llx %llx %d %d %llx\n", dbits(kd33()), dbits(nd33()), ed33(), ld33(sd33), dbits(ad33(1.0)));
	printf("d34 %llx %llx %d %d %llx\n", dbits(kd34()), dbits(nd34()), ed34(), ld34(sd34), dbits(ad34(1.0)));
	printf("d35 %llx %llx %d %d %llx\n", dbits(kd35()), dbits(nd35()), ed35(), ld35(sd35), dbits(ad35(1.0)));
	printf("d36 %llx %llx %d %d %llx\n", dbits(kd36()), dbits(nd36()), ed36(), ld36(sd36), dbits(ad36(1.0)));
	printf("d37 %llx %llx %d %d %llx\n", dbits(kd37()), dbits(nd37()), ed37(), ld37(sd37), dbits(ad37(1.0)));
	printf("d38 %llx %llx %d %d %llx\n", dbits(kd38()), dbits(nd38()), ed38(), ld38(sd38), dbits(ad38(1.0)));
	printf("d39 %llx %llx %d %d %llx\n", dbits(kd39()), dbits(nd39()), ed39(), ld39(sd39), dbits(ad39(1.0)));
	printf("d40 %llx %llx %d %d %llx\n", dbits(kd40()), dbits(nd40()), ed40(), ld40(sd40), dbits(ad40(1.0)));
	printf("d41 %llx %llx %d %d %llx\n", dbits(kd41()), dbits(nd41()), ed41(), ld41(sd41), dbits(ad41(1.0)));
	printf("d42 %llx %llx %d %d %llx\n", dbits(kd42()), dbits(nd42()), ed42(), ld42(sd42), dbits(ad42(1.0)));
	printf("d43 %llx %llx %d %d %llx\n", dbits(kd43()), dbits(nd43()), ed43(), ld43(sd43), dbits(ad43(1.0)));
	printf("d44 %llx %llx %d %d %llx\n", dbits(kd44()), dbits(nd44()), ed44(), ld44(sd44), dbits(ad44(1.0)));
	printf("f0 %x %d %llx %x\n", fbits(kf0()), ef0(), dbits(wf0()), fbits(mf0(3.0f)));
	printf("f1 %x %d %llx %x\n", fbits(kf1()), ef1(), dbits(wf1()), fbits(mf1(3.0f)));
	printf("f2 %x %d %llx %x\n", fbits(kf2()), ef2(), dbits(wf2()), fbits(mf2(3.0f)));
	printf("f3 %x %d %llx %x\n", fbits(kf3()), ef3(), dbits(wf3()), fbits(mf3(3.0f)));
	printf("f4 %x %d %llx %x\n", fbits(kf4()), ef4(), dbits(wf4()), fbits(mf4(3.0f)));
	printf("f5 %x %d %llx %x\n", fbits(kf5()), ef5(), dbits(wf5()), fbits(mf5(3.0f)));
	printf("f6 %x %d %llx %x\n", fbits(kf6()), ef6(), dbits(wf6()), fbits(mf6(3.0f)));
	printf("f7 %x %d %llx %x\n", fbits(kf7()), ef7(), dbits(wf7()), fbits(mf7(3.0f)));
	printf("f8 %x %d %llx %x\n", fbits(kf8()), ef8(), dbits(wf8()), fbits(mf8(3.0f)));
	printf("f9 %x %d %llx %x\n", fbits(kf9()), ef9(), dbits(wf9()), fbits(mf9(3.0f)));
	printf("f10 %x %d %llx %x\n", fbits(kf10()), ef10(), dbits(wf10()), fbits(mf10(3.0f)));
	printf("f11 %x %d %llx %x\n", fbits(kf11()), ef11(), dbits(wf11()), fbits(mf11(3.0f)));
	printf("f12 %x %d %llx %x\n", fbits(kf12()), ef12(), dbits(wf12()), fbits(mf12(3.0f)));
	printf("f13 %x %d %llx %x\n", fbits(kf13()), ef13(), dbits(wf13()), fbits(mf13(3.0f)));
	printf("f14 %x %d %llx %x\n", fbits(kf14()), ef14(), dbits(wf14()), fbits(mf14(3.0f)));
	printf("f15 %x %d %llx %x\n", fbits(kf15()), ef15(), dbits(wf15()), fbits(mf15(3.0f)));
	printf("f16 %x %d %llx %x\n", fbits(kf16()), ef16(), dbits(wf16()), fbits(mf16(3.0f)));
	printf("f17 %x %d %llx %x\n", fbits(kf17()), ef17(), dbits(wf17()), fbits(mf17(3.0f)));
	printf("f18 %x %d %llx %x\n", fbits(kf18()), ef18(), dbits(wf18()), fbits(mf18(3.0f)));
	printf("f19 %x %d %llx %x\n", fbits(kf19()), ef19(), dbits(wf19()), fbits(mf19(3.0f)));
	return 0;
}
