/* initialisation of automatic structs and unions: positional, designated, nested, partial, overriding, run-time values */
int printf(const char *, ...);

enum kind { K_NONE, K_INT = 5, K_DBL, K_STR = K_INT * 4 };

struct pt { int x, y; };
struct line { struct pt a, b; const char *name; };
struct mix { char c; short s; int i; long l; float f; double d; void *p; };
struct arr { int n; int v[4]; char tag[4]; };
union u { int i; unsigned char b[8]; double d; struct pt p; };
struct holder { enum kind k; union u val; struct { int lo, hi; } range; int tail; };

static unsigned sum;
static int counter;

static int next(void) { return ++counter; }
static struct pt mkpt(int x, int y) { struct pt p = {x, y}; return p; }

static void show_mix(const char *label, const struct mix *m)
{
	printf("%s: %d %d %d %ld %a %a %d\n", label, m->c, m->s, m->i, m->l, m->f, m->d, m->p != 0);
	sum += m->c + m->s + m->i + (unsigned)m->l + (unsigned)m->d;
}

static void show_holder(const char *label, const struct holder *h)
{
	printf("%s: %d %d %d %d %d %d %d\n", label, h->k, h->val.b[0], h->val.b[1], h->val.b[3], h->range.lo, h->range.hi, h->tail);
	sum += h->k + h->val.b[0] + h->range.hi + h->tail;
}

static void structs(int n)
{
	struct pt p0 = {0};
	struct pt p1 = {n};				/* y zero */
	struct pt p2 = {n, n + 1};
	struct pt p3 = {.y = n};			/* x zero */
	struct pt p4 = {.y = 1, .x = n};		/* out of order */
	struct pt p5 = {.x = 1, .x = n + 2};		/* later initialiser overrides */
	struct pt p7 = p2;				/* copy-initialised from another struct */
	struct pt p8 = mkpt(n * 2, n * 3);		/* from a function result */
	struct pt p9 = {next(), n};			/* run-time expressions */

	printf("pt: %d %d,%d %d,%d %d,%d %d,%d %d,%d %d,%d %d,%d %d,%d\n", n, p0.x, p0.y, p1.x, p1.y, p2.x, p2.y, p3.x, p3.y,
	    p4.x, p4.y, p5.x, p5.y, p7.x, p7.y, p8.x, p8.y);
	printf("pt9: %d %d %d\n", n, p9.x > 0, p9.y);
	sum += p1.x + p2.y + p3.y + p4.x + p5.x + p7.y + p8.y;
}

static void nested(int n)
{
	struct line l1 = {{1, 2}, {3, n}, "l1"};
	struct line l2 = {1, 2, 3, n, "l2"};		/* brace elision */
	struct line l3 = {.b = {.y = n}, .name = "l3"};
	struct line l4 = {.b.x = n, .a.y = 4};		/* nested designators */
	struct line l5 = {{n}, .name = "l5"};
	struct line l6 = {.a = mkpt(n, 6), .b = l1.b};	/* struct-valued initialisers for members */
	struct line l7 = {mkpt(7, n), 8, 9};		/* struct expression then elided braces */
	const struct line *ls[] = {&l1, &l2, &l3, &l4, &l5, &l6, &l7};
	int i;

	for (i = 0; i < 7; i++) {
		printf("line: %d %d %d %d %d %d %s\n", n, i, ls[i]->a.x, ls[i]->a.y, ls[i]->b.x, ls[i]->b.y,
		    ls[i]->name ? ls[i]->name : "(null)");
		sum += ls[i]->a.x + ls[i]->a.y * 2 + ls[i]->b.x * 3 + ls[i]->b.y * 4;
	}
}

static void mixes(int n)
{
	struct mix m1 = {'a', -2, 3, -4L, 1.5f, 2.25, &m1};
	struct mix m2 = {.d = n, .c = 'z'};
	struct mix m3 = {n, n, n, n, n, n, 0};		/* int converted to each member type */
	struct mix m4 = {.f = n / 2.0, .l = 1L << 40, .s = (short)(n * 40000)};
	struct mix m5 = {0};

	show_mix("mix1", &m1);
	show_mix("mix2", &m2);
	show_mix("mix3", &m3);
	show_mix("mix4", &m4);
	show_mix("mix5", &m5);
}

static void arrs(int n)
{
	struct arr a1 = {3, {1, 2, 3}, "ab"};
	struct arr a2 = {n, 1, 2, 3, 4, 'x', 'y'};	/* brace elision through the array members */
	struct arr a3 = {.v[2] = n, .tag = "xyz"};
	struct arr a4 = {.v = {[1] = n, [3] = 2}, .n = 1};
	struct arr a5 = {.tag = {'t'}, .v[1] = 5, 6, 7};	/* continues after v[1]: v[2]=6, v[3]=7 */
	struct arr a6 = {.n = n, .tag = "full"};	/* exactly fills tag, no NUL */
	const struct arr *as[] = {&a1, &a2, &a3, &a4, &a5, &a6};
	int i;

	for (i = 0; i < 6; i++) {
		printf("arr: %d %d %d %d %d %d %d %d %d %d %d\n", n, i, as[i]->n, as[i]->v[0], as[i]->v[1], as[i]->v[2], as[i]->v[3],
		    as[i]->tag[0], as[i]->tag[1], as[i]->tag[2], as[i]->tag[3]);
		sum += as[i]->n + as[i]->v[1] + as[i]->v[3] + as[i]->tag[3];
	}
}

static void unions(int n)
{
	union u u1 = {0x01020304 + n};			/* first member */
	union u u2 = {.b = {n, 2, 3, 4, 5, 6, 7, 8}};
	union u u3 = {.d = n + 0.5};
	union u u4 = {.p = {n, -1}};
	union u u5 = {.p.y = n};
	union u u6 = u2;
	struct holder h1 = {K_INT, {n}, {1, 2}, 3};
	struct holder h2 = {.val.b = {[3] = n, [0] = 7}, .k = K_STR, .tail = -1};
	struct holder h3 = {K_DBL, .val = {.b[1] = n}, .range.hi = 4};
	struct holder h4 = {.range = {n, n}, .val.p = {1, 2}};

	printf("union: %d %d %d %d %a %d %d %d %d %d\n", n, u1.b[0], u1.b[3], u2.i, u3.d, u4.p.x, u4.p.y, u5.p.x, u5.p.y, u6.b[7]);
	show_holder("holder1", &h1);
	show_holder("holder2", &h2);
	show_holder("holder3", &h3);
	show_holder("holder4", &h4);
	sum += u1.b[0] + u2.i + u4.p.x;
}

int main(void)
{
	int n;

	for (n = 0; n <= 3; n++) {
		structs(n);
		nested(n);
		mixes(n);
		arrs(n);
		unions(n);
	}
	printf("sum: %u\n", sum);
	return sum & 63;
}
