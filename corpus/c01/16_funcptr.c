/* function pointers: tables, call syntaxes, passing/returning, struct members, fp returning fp */
int printf(const char *, ...);

typedef int (*binop)(int, int);
typedef int unop(int);

static unsigned sum;

static int add(int a, int b) { return a + b; }
static int sub(int a, int b) { return a - b; }
static int mul(int a, int b) { return a * b; }
static int dvd(int a, int b) { return b ? a / b : 0; }
static int mod(int a, int b) { return b ? a % b : 0; }
static int neg(int a) { return -a; }
static int sqr(int a) { return a * a; }
static int inc(int a) { return a + 1; }
static double half(double d) { return d / 2; }
static long wide(long a, char b, short c, double d) { return a + b + c + (long)d; }

static const binop optab[] = {add, sub, mul, dvd, mod};

struct cmd { const char *name; binop fn; int arity; unop *un; };

static const struct cmd cmds[] = {
	{"add", add, 2, 0},
	{"mul", mul, 2, 0},
	{"neg", 0, 1, neg},
	{"sqr", 0, 1, sqr},
	{"sub", &sub, 2, 0},
	{"inc", 0, 1, &inc},
};

static binop pick(int i) { return optab[i % 5]; }

static int apply(binop f, int a, int b) { return f(a, b); }
static int apply2(int f(int, int), int a, int b) { return (*f)(a, b); }	/* function type parameter adjusts to pointer */

/* function returning pointer to function, written without typedef */
static int (*chooser(int k))(int)
{
	switch (k % 3) {
	case 0: return neg;
	case 1: return sqr;
	}
	return inc;
}

/* pointer to function returning pointer to function */
static int (*(*meta)(int))(int) = chooser;

static unop *compose_tab[3] = {neg, sqr, inc};

static int twice(unop *f, int x) { return f(f(x)); }

static void syntaxes(int a, int b)
{
	binop f = add;
	int (*g)(int, int) = &mul;
	int r1 = f(a, b);
	int r2 = (*f)(a, b);
	int r3 = (****f)(a, b);
	int r4 = (&*g)(a, b);
	int r5 = (*&*g)(a, b);
	int r6 = (***sub)(a, b);
	int r7 = (&sub)(a, b);

	printf("syntaxes: %d %d %d %d %d %d %d %d %d\n", a, b, r1, r2, r3, r4, r5, r6, r7);
	sum += r1 + r2 + r3 + r4 + r5 + r6 + r7;
}

static void tables(int a, int b)
{
	int i;

	for (i = 0; i < 5; i++) {
		int r = optab[i](a, b);
		int s = pick(i + 5)(b, a);
		int t = apply(optab[i], a, 3) + apply2(optab[4 - i], b, 2);

		printf("tables: %d %d %d %d %d %d\n", a, b, i, r, s, t);
		sum += r + s + t;
	}
	for (i = 0; i < (int)(sizeof cmds / sizeof cmds[0]); i++) {
		const struct cmd *c = &cmds[i];
		int r = c->arity == 2 ? c->fn(a, b) : c->un(a);

		printf("cmds: %s %d %d %d\n", c->name, a, b, r);
		sum += r;
	}
}

static void returned(int k)
{
	int (*f)(int) = chooser(k);
	int r1 = f(k + 2);
	int r2 = chooser(k + 1)(k + 2);
	int r3 = meta(k + 2)(k + 2);
	int r4 = (*(*meta)(k))(5);
	int r5 = twice(compose_tab[k % 3], k + 1);
	int eq = (f == compose_tab[k % 3]) + 2 * (f != neg) + 4 * (meta == chooser) + 8 * !f;

	printf("returned: %d %d %d %d %d %d %d\n", k, r1, r2, r3, r4, r5, eq);
	sum += r1 + r2 + r3 + r4 + r5 + eq;
}

static void othertypes(int k)
{
	double (*h)(double) = half;
	long (*w)(long, char, short, double) = wide;
	void (*vt[2])(int, int) = {syntaxes, tables};
	int (*pf)(const char *, ...) = printf;

	pf("othertypes: %d %a %ld\n", k, h(k + 0.5), w(k * 1000000000L, (char)k, (short)-k, k * 2.5));
	if (k == 0)
		vt[0](100, 7);
	sum += (unsigned)w(k, 1, 2, 3.0);
}

int main(void)
{
	int a, b, k;

	for (a = -2; a <= 2; a += 2)
		for (b = -1; b <= 3; b += 2) {
			syntaxes(a, b);
			tables(a * 7, b);
		}
	for (k = 0; k <= 5; k++)
		returned(k);
	for (k = 0; k <= 3; k++)
		othertypes(k);
	printf("sum: %u\n", sum);
	return sum & 63;
}
