/* 3-D VLAs int c[a][b][d]: sizeof at each level, indexing, passing to a function */
int printf(const char *, ...);
void *memcpy(void *, const void *, unsigned long);

static unsigned sum;

static void sizes(int a, int b, int d)
{
	int c[a][b][d];

	c[0][0][0] = 0;
	printf("sizeof3: %d %d %d %lu %lu %lu %lu\n", a, b, d, (unsigned long)sizeof c,
	    (unsigned long)sizeof c[0], (unsigned long)sizeof c[0][0], (unsigned long)sizeof c[0][0][0]);
	sum += sizeof c + sizeof c[0] + sizeof c[0][0];
}

static void index3(int a, int b, int d)
{
	int c[a][b][d];
	int flat[30];
	int i, j, k, bad = 0;
	long t = 0;

	for (i = 0; i < a; i++)
		for (j = 0; j < b; j++)
			for (k = 0; k < d; k++)
				c[i][j][k] = i * 100 + j * 10 + k;
	memcpy(flat, c, sizeof c);
	for (i = 0; i < a; i++)
		for (j = 0; j < b; j++)
			for (k = 0; k < d; k++)
				if (flat[(i * b + j) * d + k] != i * 100 + j * 10 + k)
					bad++;
	printf("store3: %d %d %d %d\n", a, b, d, bad);
	for (i = 0; i < a * b * d; i++)
		flat[i] = 7 * i + 1;
	memcpy(c, flat, sizeof c);
	for (i = 0; i < a; i++)
		for (j = 0; j < b; j++)
			for (k = 0; k < d; k++)
				t += (long)c[i][j][k] * (i + 2 * j + 3 * k + 1);
	printf("load3: %d %d %d %ld\n", a, b, d, t);
	sum += (unsigned)t + bad;
}

static long callee(int a, int b, int d, int c[a][b][d])
{
	long t = 0;
	int i, j, k;

	for (i = 0; i < a; i++)
		for (j = 0; j < b; j++)
			for (k = 0; k < d; k++)
				t = t * 2 + c[i][j][k];
	return t;
}

static unsigned long callee_size(int a, int b, int d, int c[a][b][d])
{
	return sizeof c[0] * 1000 + sizeof c[0][0];
}

static void pass3(int a, int b, int d)
{
	int c[a][b][d];
	int flat[30];
	int i;

	for (i = 0; i < a * b * d; i++)
		flat[i] = i % 5;
	memcpy(c, flat, sizeof c);
	printf("pass3: %d %d %d %ld %lu\n", a, b, d, callee(a, b, d, c), callee_size(a, b, d, c));
	sum += (unsigned)callee(a, b, d, c);
}

static void plane(int a, int b, int d)
{
	int c[a][b][d];
	int (*pl)[b][d] = c;
	int (*row)[d];
	int flat[30];
	int i;

	for (i = 0; i < a * b * d; i++)
		flat[i] = 100 + i;
	memcpy(c, flat, sizeof c);
	pl += a - 1;
	row = *pl;
	row += b - 1;
	printf("plane: %d %d %d %d %d %lu %lu\n", a, b, d, (*pl)[0][0], (*row)[d - 1],
	    (unsigned long)sizeof *pl, (unsigned long)sizeof *row);
	sum += (*row)[d - 1];
}

int main(void)
{
	int a, b, d;

	for (a = 1; a <= 3; a++)
		for (b = 1; b <= 3; b++)
			for (d = 1; d <= 3; d++) {
				sizes(a, b, d);
				index3(a, b, d);
				pass3(a, b, d);
				plane(a, b, d);
			}
	printf("sum: %u\n", sum);
	return sum & 63;
}
