/* pointer idioms: pointer to pointer, odd-sized struct arrays, negative indices, differences, void* trips, fixed multi-dim arrays */
int printf(const char *, ...);

struct s3 { char c[3]; };
struct s5 { char c[5]; };
struct s12 { int a; char b[5]; short c; };
struct s24 { double d; int i; char c[9]; };

static unsigned sum;

static void ptrptr(int n)
{
	int a = n, b = n * 2, c = n * 3;
	int *tab[3] = {&a, &b, &c};
	int **pp = tab;
	int ***ppp = &pp;
	const char *words[] = {"zero", "one", "two", "three", 0};
	const char **w;
	int t = 0;

	**pp += 1;			/* a */
	*pp[1] += 2;			/* b */
	pp++;
	**pp += 10;			/* b */
	(*ppp)[1][0] += 100;		/* c: pp now points at tab[1] */
	*tab[n % 3] = -*tab[n % 3];
	for (w = words; *w; w++)
		t += (*w)[n % 3] + (int)(w - words);
	printf("ptrptr: %d %d %d %d %d %d\n", n, a, b, c, t, (int)(pp - tab));
	sum += a + b + c + t;
}

static void oddsizes(int n)
{
	struct s3 a3[6];
	struct s5 a5[6];
	struct s12 a12[6];
	struct s24 a24[6];
	struct s3 *p3 = a3 + n;
	struct s5 *p5 = &a5[5] - n;
	struct s12 *p12 = a12;
	struct s24 *p24 = a24 + 6;
	int i;

	for (i = 0; i < 6; i++) {
		a3[i].c[2] = (char)(i + 30);
		a5[i].c[4] = (char)(i + 50);
		a12[i].a = i + 120;
		a12[i].c = (short)-i;
		a24[i].i = i + 240;
		a24[i].d = i * 0.5;
	}
	p12 += n;
	p24 -= n + 1;
	printf("oddsizes: %d %d %d %d %d %d %a\n", n, p3->c[2], p5->c[4], p12->a, p12->c, p24->i, p24->d);
	printf("diffs: %d %ld %ld %ld %ld %ld\n", n, (long)(p3 - a3), (long)(&a5[5] - p5), (long)(p12 - &a12[5]), (long)(p24 - a24),
	    (long)((char *)p24 - (char *)a24));
	printf("sizes: %lu %lu %lu %lu\n", (unsigned long)sizeof(struct s3), (unsigned long)sizeof(struct s5), (unsigned long)sizeof(struct s12),
	    (unsigned long)sizeof(struct s24));
	sum += p3->c[2] + p5->c[4] + p12->a + p24->i;
}

static void negidx(int n)
{
	int a[9] = {10, 11, 12, 13, 14, 15, 16, 17, 18};
	int *mid = &a[4];
	int *end = a + 9;
	long k = -n;
	unsigned char uc = (unsigned char)n;

	printf("negidx: %d %d %d %d %d %d %d %d\n", n, mid[-n], mid[n], *(mid - n), n[mid], end[-1 - n], mid[k], mid[uc]);
	printf("cmp: %d %d %d %d %d\n", n, mid - n < mid, mid + n <= end, &a[n] == a + n, &mid[-4] == a);
	sum += mid[-n] + mid[n] + end[-1 - n];
}

static void strings(const char *s)
{
	const char *p = s, *q;
	char buf[16];
	char *d = buf;
	int len, vowels = 0;

	while (*p)
		p++;
	len = (int)(p - s);
	for (q = s; q < p; q++)
		if (*q == 'a' || *q == 'e' || *q == 'i' || *q == 'o' || *q == 'u')
			vowels++;
	while (p > s)
		*d++ = *--p;		/* reverse copy */
	*d = '\0';
	printf("strings: %s %d %d %s %c\n", s, len, vowels, buf, len ? d[-1] : '-');
	sum += len + vowels + buf[0];
}

static void voidtrip(int n)
{
	long l = n * 1000L;
	double dd = n + 0.5;
	struct s12 s = {n, "abcd", 7};
	void *v[3] = {&l, &dd, &s};
	void *pv = v;
	void **back = pv;
	char *bytes = (char *)back[2];
	const void *cv = &s.b[1];

	*(long *)v[0] += 1;
	*(double *)back[1] *= 2;
	((struct s12 *)v[2])->c++;
	printf("voidtrip: %d %ld %a %d %d %c %d\n", n, l, dd, s.c, ((struct s12 *)bytes)->a, *(const char *)cv, (int)((const char *)cv - bytes));
	sum += (unsigned)l + s.c;
}

static void multidim(int n)
{
	int a[3][4][5];
	int (*p)[4][5] = a;
	int (*row)[5] = a[1];
	int *flat = &a[0][0][0];
	int (*q)[4];
	int b[2][4] = {{1, 2, 3, 4}, {5, 6, 7, n}};
	int i, j, k, t = 0;

	for (i = 0; i < 3; i++)
		for (j = 0; j < 4; j++)
			for (k = 0; k < 5; k++)
				a[i][j][k] = i * 100 + j * 10 + k;
	q = b;
	q++;
	for (k = 0; k < 5; k++)
		t += row[n][k] + p[2][n][k] + (*(p + 1))[3][k];
	printf("multidim: %d %d %d %d %d %d %d\n", n, t, flat[n + 1], (*q)[3], q[-1][n], *(*(*(a + 2) + 1) + n), (int)(((char *)&a[2][3][4] - (char *)a) / sizeof(int)));
	printf("dimsizes: %lu %lu %lu %lu %ld %ld\n", (unsigned long)sizeof a, (unsigned long)sizeof a[0], (unsigned long)sizeof *row,
	    (unsigned long)sizeof *q, (long)(&a[2] - &a[0]), (long)(&a[1][3] - &a[1][0]));
	sum += t + (*q)[3];
}

int main(void)
{
	static const char *const inputs[] = {"", "a", "pointer", "queue", "rhythm"};
	int n;

	for (n = 0; n <= 3; n++) {
		ptrptr(n);
		oddsizes(n);
		negidx(n);
		voidtrip(n);
		multidim(n);
	}
	for (n = 0; n < 5; n++)
		strings(inputs[n]);
	printf("sum: %u\n", sum);
	return sum & 63;
}
