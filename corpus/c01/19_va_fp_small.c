/* variadic reader: double/float at every position 0..9 among doubles and among ints; char/short/_Bool promoted */
int printf(const char *, ...);

static unsigned sum;
static long got[10];

/* fmt letters: i int, d double (value read is scaled by 8 and converted to long) */
static long rd(const char *fmt, ...)
{
	__builtin_va_list ap;
	long acc = 0, v;
	int k;

	__builtin_va_start(ap, fmt);
	for (k = 0; fmt[k]; k++) {
		if (fmt[k] == 'd')
			v = (long)(__builtin_va_arg(ap, double) * 8);
		else
			v = __builtin_va_arg(ap, int);
		got[k] = v;
		acc = (acc * 31 + v) % 1000000007L;
	}
	__builtin_va_end(ap);
	return acc;
}

static char fmt[11];

static const char *mk(int n, char fill, int pos, char c)
{
	int k;

	for (k = 0; k < n; k++)
		fmt[k] = fill;
	fmt[pos] = c;
	fmt[n] = 0;
	return fmt;
}

static void report(const char *ty, int n, int pos, long r)
{
	printf("%s: %d %ld %ld %ld %ld\n", ty, pos, got[pos], got[(pos + 1) % n], got[(pos + n - 1) % n], r);
	sum += (unsigned)r;
}

/* a double among ten doubles: positions 8 and 9 are passed on the stack */
static void dbl_in_dbl(int p, double v, float g)
{
	const char *f = mk(10, 'd', p, 'd');
	long r = 0;

	switch (p) {
	case 0: r = rd(f, v, .5, 1., 1.5, 2., 2.5, 3., 3.5, 4., 4.5); break;
	case 1: r = rd(f, 0., v, 1., 1.5, 2., 2.5, 3., 3.5, 4., 4.5); break;
	case 2: r = rd(f, 0., .5, v, 1.5, 2., 2.5, 3., 3.5, 4., 4.5); break;
	case 3: r = rd(f, 0., .5, 1., v, 2., 2.5, 3., 3.5, 4., 4.5); break;
	case 4: r = rd(f, 0., .5, 1., 1.5, v, 2.5, 3., 3.5, 4., 4.5); break;
	case 5: r = rd(f, 0., .5, 1., 1.5, 2., v, 3., 3.5, 4., 4.5); break;
	case 6: r = rd(f, 0., .5, 1., 1.5, 2., 2.5, v, 3.5, 4., 4.5); break;
	case 7: r = rd(f, 0., .5, 1., 1.5, 2., 2.5, 3., v, 4., 4.5); break;
	case 8: r = rd(f, 0., .5, 1., 1.5, 2., 2.5, 3., 3.5, v, 4.5); break;
	case 9: r = rd(f, 0., .5, 1., 1.5, 2., 2.5, 3., 3.5, 4., v); break;
	}
	report("dbl_in_dbl", 10, p, r);
	switch (p) {		/* float argument is promoted to double */
	case 0: r = rd(f, g, .5, 1., 1.5, 2., 2.5, 3., 3.5, 4., 4.5); break;
	case 1: r = rd(f, 0., g, 1., 1.5, 2., 2.5, 3., 3.5, 4., 4.5); break;
	case 2: r = rd(f, 0., .5, g, 1.5, 2., 2.5, 3., 3.5, 4., 4.5); break;
	case 3: r = rd(f, 0., .5, 1., g, 2., 2.5, 3., 3.5, 4., 4.5); break;
	case 4: r = rd(f, 0., .5, 1., 1.5, g, 2.5, 3., 3.5, 4., 4.5); break;
	case 5: r = rd(f, 0., .5, 1., 1.5, 2., g, 3., 3.5, 4., 4.5); break;
	case 6: r = rd(f, 0., .5, 1., 1.5, 2., 2.5, g, 3.5, 4., 4.5); break;
	case 7: r = rd(f, 0., .5, 1., 1.5, 2., 2.5, 3., g, 4., 4.5); break;
	case 8: r = rd(f, 0., .5, 1., 1.5, 2., 2.5, 3., 3.5, g, 4.5); break;
	case 9: r = rd(f, 0., .5, 1., 1.5, 2., 2.5, 3., 3.5, 4., g); break;
	}
	report("flt_in_dbl", 10, p, r);
}

/* a double among seven ints, and an int among seven doubles */
static void mixed(int p, double v, int w)
{
	const char *f = mk(8, 'i', p, 'd');
	long r = 0;

	switch (p) {
	case 0: r = rd(f, v, 11, 12, 13, 14, 15, 16, 17); break;
	case 1: r = rd(f, 10, v, 12, 13, 14, 15, 16, 17); break;
	case 2: r = rd(f, 10, 11, v, 13, 14, 15, 16, 17); break;
	case 3: r = rd(f, 10, 11, 12, v, 14, 15, 16, 17); break;
	case 4: r = rd(f, 10, 11, 12, 13, v, 15, 16, 17); break;
	case 5: r = rd(f, 10, 11, 12, 13, 14, v, 16, 17); break;
	case 6: r = rd(f, 10, 11, 12, 13, 14, 15, v, 17); break;
	case 7: r = rd(f, 10, 11, 12, 13, 14, 15, 16, v); break;
	}
	report("dbl_in_int", 8, p, r);
	f = mk(8, 'd', p, 'i');
	switch (p) {
	case 0: r = rd(f, w, 1.5, 2.5, 3.5, 4.5, 5.5, 6.5, 7.5); break;
	case 1: r = rd(f, .5, w, 2.5, 3.5, 4.5, 5.5, 6.5, 7.5); break;
	case 2: r = rd(f, .5, 1.5, w, 3.5, 4.5, 5.5, 6.5, 7.5); break;
	case 3: r = rd(f, .5, 1.5, 2.5, w, 4.5, 5.5, 6.5, 7.5); break;
	case 4: r = rd(f, .5, 1.5, 2.5, 3.5, w, 5.5, 6.5, 7.5); break;
	case 5: r = rd(f, .5, 1.5, 2.5, 3.5, 4.5, w, 6.5, 7.5); break;
	case 6: r = rd(f, .5, 1.5, 2.5, 3.5, 4.5, 5.5, w, 7.5); break;
	case 7: r = rd(f, .5, 1.5, 2.5, 3.5, 4.5, 5.5, 6.5, w); break;
	}
	report("int_in_dbl", 8, p, r);
}

/* small integer types are promoted to int */
static void small(int p, char c, unsigned char uc, short s, unsigned short us, _Bool b)
{
	const char *f = mk(8, 'i', p, 'i');
	long r = 0;

	switch (p) {
	case 0: r = rd(f, c, uc, s, us, b, c, 16, 17); break;
	case 1: r = rd(f, 10, c, uc, s, us, b, 16, 17); break;
	case 2: r = rd(f, 10, 11, c, uc, s, us, b, 17); break;
	case 3: r = rd(f, 10, 11, 12, c, uc, s, us, b); break;
	case 4: r = rd(f, b, 11, 12, 13, c, uc, s, us); break;
	case 5: r = rd(f, us, b, 12, 13, 14, c, uc, s); break;
	case 6: r = rd(f, s, us, b, 13, 14, 15, c, uc); break;
	case 7: r = rd(f, uc, s, us, b, 14, 15, 16, c); break;
	}
	printf("small: %d %ld %ld %ld %ld %ld %ld %ld %ld\n", p, got[0], got[1], got[2], got[3], got[4], got[5], got[6], got[7]);
	sum += (unsigned)r;
}

int main(void)
{
	int p;

	for (p = 0; p < 10; p++)
		dbl_in_dbl(p, -100.25 - p, (float)(p * 16 + 0.125));
	for (p = 0; p < 8; p++) {
		mixed(p, 1000.5 + p, -77 - p);
		small(p, (char)(-3 - p), (unsigned char)(250 + p % 4), (short)(-30000 - p), (unsigned short)(65000 + p), p & 1);
	}
	printf("sum: %u\n", sum);
	return sum & 63;
}
