/* pointer difference and comparison between rows of a 2-D VLA: &v[a] - &v[b], q - p */
int printf(const char *, ...);
int fflush(void *);

static unsigned sum;

static void diff_addr(int n)
{
	long v[n][n + 1];
	int a, b;

	v[0][0] = 0;
	for (a = 0; a <= n; a++)
		for (b = 0; b <= n; b++) {
			printf("diff_addr: %d %d %d %ld\n", n, a, b, (long)(&v[a] - &v[b]));
			fflush(0);
			sum += (unsigned)(&v[a] - &v[b]) & 7;
		}
}

static void diff_ptr(int n)
{
	long v[n][n + 1];
	long (*p)[n + 1] = v;
	long (*q)[n + 1] = p;
	int k;

	v[0][0] = 0;
	for (k = 0; k <= n; k++) {
		printf("diff_ptr: %d %d %ld %ld\n", n, k, (long)(q - p), (long)(p - q));
		fflush(0);
		sum += (unsigned)(q - p);
		q++;
	}
}

static void cmp_ptr(int n)
{
	long v[n][n + 1];
	long (*p)[n + 1] = v;
	long (*q)[n + 1] = p + n;

	v[0][0] = 0;
	printf("cmp_ptr: %d %d %d %d %d\n", n, p < q, q <= p, p + n == q, q - n == p);
	fflush(0);
	sum += (p < q) + 2 * (p + n == q);
}

static void diff_elem(int n)
{
	/* element pointers into different rows: difference in units of long */
	long v[n][n + 1];
	long *first = &v[0][0];
	long *last = &v[n - 1][n];

	v[0][0] = 0;
	printf("diff_elem: %d %ld\n", n, (long)(last - first));
	fflush(0);
	sum += (unsigned)(last - first);
}

static long diff_param(int m, int n, long v[m][n], int a, int b)
{
	return &v[a] - &v[b];
}

static void param(int n)
{
	long v[n][n + 1];
	int a;

	v[0][0] = 0;
	for (a = 0; a <= n; a++) {
		printf("diff_param: %d %d %ld\n", n, a, diff_param(n, n + 1, v, a, 0));
		fflush(0);
	}
}

int main(void)
{
	int n;

	for (n = 1; n <= 3; n++) cmp_ptr(n);
	for (n = 1; n <= 3; n++) diff_elem(n);
	for (n = 1; n <= 3; n++) diff_ptr(n);
	for (n = 1; n <= 3; n++) diff_addr(n);
	for (n = 1; n <= 3; n++) param(n);
	printf("sum: %u\n", sum);
	return sum & 63;
}
