/* recursion: factorial, fibonacci, ackermann, gcd, binomial, mutual recursion, hanoi, power */
int printf(const char *, ...);

static unsigned sum;
static int moves;

static unsigned long fact(unsigned n) { return n < 2 ? 1 : n * fact(n - 1); }
static long fib(int n) { return n < 2 ? n : fib(n - 1) + fib(n - 2); }

static int ack(int m, int n)
{
	if (m == 0)
		return n + 1;
	if (n == 0)
		return ack(m - 1, 1);
	return ack(m - 1, ack(m, n - 1));
}

static int gcd(int a, int b) { return b ? gcd(b, a % b) : a; }

static long binom(int n, int k)
{
	if (k == 0 || k == n)
		return 1;
	return binom(n - 1, k - 1) + binom(n - 1, k);
}

static int is_odd(unsigned n);
static int is_even(unsigned n) { return n == 0 ? 1 : is_odd(n - 1); }
static int is_odd(unsigned n) { return n == 0 ? 0 : is_even(n - 1); }

/* three-way mutual recursion: Hofstadter-like male/female sequences */
static int hm(int n);
static int hf(int n) { return n == 0 ? 1 : n - hm(hf(n - 1)); }
static int hm(int n) { return n == 0 ? 0 : n - hf(hm(n - 1)); }

static void hanoi(int n, int from, int to, int via)
{
	if (n == 0)
		return;
	hanoi(n - 1, from, via, to);
	moves += from * 10 + to;
	hanoi(n - 1, via, to, from);
}

static double power(double b, int e)
{
	double h;

	if (e == 0)
		return 1;
	h = power(b, e / 2);
	return e & 1 ? h * h * b : h * h;
}

static int collatz(long n, int steps)
{
	if (n == 1)
		return steps;
	return collatz(n & 1 ? 3 * n + 1 : n / 2, steps + 1);
}

static int digits(unsigned n, int base, char *out)
{
	/* writes most significant digit first by recursing before storing */
	int pos = 0;

	if (n >= (unsigned)base)
		pos = digits(n / base, base, out);
	out[pos] = "0123456789abcdef"[n % base];
	out[pos + 1] = 0;
	return pos + 1;
}

static int sumto(int n, int acc) { return n == 0 ? acc : sumto(n - 1, acc + n); }

int main(void)
{
	int m, n;
	char buf[40];

	for (n = 0; n <= 12; n++) {
		printf("fact: %d %lu\n", n, fact(n));
		sum += (unsigned)fact(n);
	}
	for (n = 0; n <= 15; n++) {
		printf("fib: %d %ld\n", n, fib(n));
		sum += (unsigned)fib(n);
	}
	for (m = 0; m <= 2; m++)
		for (n = 0; n <= 4; n++) {
			printf("ack: %d %d %d\n", m, n, ack(m, n));
			sum += ack(m, n);
		}
	printf("ack: 3 3 %d\n", ack(3, 3));
	for (m = 1; m <= 6; m++)
		for (n = 1; n <= 6; n++)
			sum += gcd(m * 6, n * 4);
	printf("gcd: %d %d %d\n", gcd(36, 24), gcd(17, 5), gcd(0, 9));
	for (n = 0; n <= 8; n++)
		for (m = 0; m <= n; m++)
			printf("binom: %d %d %ld\n", n, m, binom(n, m));
	for (n = 0; n <= 9; n++)
		printf("parity: %d %d %d\n", n, is_even(n), is_odd(n));
	for (n = 0; n <= 12; n++) {
		printf("hofstadter: %d %d %d\n", n, hf(n), hm(n));
		sum += hf(n) * 3 + hm(n);
	}
	for (n = 0; n <= 6; n++) {
		moves = 0;
		hanoi(n, 1, 3, 2);
		printf("hanoi: %d %d\n", n, moves);
		sum += moves;
	}
	for (n = 0; n <= 10; n++)
		printf("power: %d %a %a\n", n, power(2, n), power(1.5, n));
	for (n = 1; n <= 12; n++) {
		printf("collatz: %d %d\n", n, collatz(n, 0));
		sum += collatz(n, 0);
	}
	for (m = 2; m <= 16; m += 7)
		for (n = 0; n <= 300; n += 75) {
			int len = digits(n, m, buf);
			printf("digits: %d %d %d %s\n", n, m, len, buf);
			sum += len + buf[0];
		}
	printf("sumto: %d %d\n", sumto(100, 0), sumto(1000, 5));
	printf("sum: %u\n", sum);
	return sum & 63;
}
