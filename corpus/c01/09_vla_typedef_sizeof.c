/* typedef of VLA types, sizeof(int[n]), which sizeof operands are evaluated */
int printf(const char *, ...);

static unsigned sum;
static int calls;
static int f(int n) { calls++; return n; }

static void tdef(int n)
{
	typedef int vec[n];
	int saved = n;
	vec a;
	int i, t = 0;

	n += 10;		/* the typedef's size was fixed when the typedef was reached */
	{
		vec b;

		for (i = 0; i < saved; i++) {
			a[i] = i;
			b[i] = 2 * i;
		}
		for (i = 0; i < saved; i++)
			t += a[i] + b[i];
		printf("tdef: %d %lu %lu %lu %d\n", saved, (unsigned long)sizeof(vec), (unsigned long)sizeof a,
		    (unsigned long)sizeof b, t);
	}
	sum += t + sizeof(vec);
}

static void tdef_late(int n)
{
	typedef int vec[n];	/* size is fixed here, before n changes */
	int saved = n;

	n += 3;
	{
		vec a;

		a[0] = 1;
		a[saved - 1] = 2;
		printf("tdef_late: %d %lu %lu %d\n", saved, (unsigned long)sizeof a, (unsigned long)sizeof(vec), a[saved - 1]);
		sum += sizeof a;
	}
}

static void tdef_once(int n)
{
	int c0 = calls;
	typedef char buf[f(n) * 2];
	int c1 = calls;
	buf x, y;
	int c2 = calls;
	unsigned long z = sizeof(buf) + sizeof x;
	int c3 = calls;

	x[0] = 1;
	y[n * 2 - 1] = 2;
	printf("tdef_once: %d %d %d %d %lu %d\n", n, c1 - c0, c2 - c1, c3 - c2, z, x[0] + y[n * 2 - 1]);
	sum += (c1 - c0) + (c2 - c1) * 10 + (c3 - c2) * 100 + z;
}

static void sizeof_type(int n)
{
	int c0 = calls;
	unsigned long a = sizeof(int[n]);
	unsigned long b = sizeof(double[n + 1]);
	unsigned long c = sizeof(char[n][3]);
	unsigned long d = sizeof(short[2][n]);
	unsigned long e = sizeof(int[f(n)]);
	int c1 = calls;
	unsigned long g = sizeof(int (*)[n]);	/* pointer to VLA: ordinary pointer size */

	printf("sizeof_type: %d %lu %lu %lu %lu %lu %d %lu\n", n, a, b, c, d, e, c1 - c0, g);
	sum += a + b + c + d + e + g + (c1 - c0);
}

static void sizeof_noeval(int n)
{
	int k = 5;
	int fixed[4];
	int vla[n];
	unsigned long a, b, c, d;

	vla[0] = 0;
	fixed[0] = 0;
	a = sizeof(k++);		/* not evaluated: int */
	b = sizeof fixed[k++];		/* not evaluated */
	c = sizeof(fixed[f(1)] + 1L);	/* not evaluated */
	d = sizeof vla[k++];		/* element type int is not a VLA: not evaluated */
	printf("sizeof_noeval: %d %lu %lu %lu %lu %d %d\n", n, a, b, c, d, k, calls);
	sum += a + b + c + d + k;
}

static void sizeof_eval(int n)
{
	int k = 0;
	long v[n][n + 1];
	unsigned long a, b;

	v[0][0] = 0;
	a = sizeof v[k++];		/* operand has VLA type long[n+1]: evaluated */
	b = sizeof(long[k += 2]);	/* VLA type name: size expression evaluated */
	printf("sizeof_eval: %d %lu %lu %d\n", n, a, b, k);
	sum += a + b + k;
}

static void alignof_vla(int n)
{
	typedef double dv[n];
	typedef char cv[n];

	printf("alignof_vla: %d %lu %lu\n", n, (unsigned long)_Alignof(dv), (unsigned long)_Alignof(cv));
}

static void ptr_typedef(int n)
{
	typedef long row[n];
	long m[3][n];
	row *p = m;
	int i;

	for (i = 0; i < n; i++)
		m[0][i] = i + 1;
	printf("ptr_typedef: %d %lu %ld %ld\n", n, (unsigned long)sizeof *p, (*p)[0], (*p)[n - 1]);
	sum += (unsigned)(*p)[n - 1];
}

int main(void)
{
	int n;

	for (n = 1; n <= 5; n++) tdef(n);
	for (n = 1; n <= 4; n++) tdef_late(n);
	for (n = 1; n <= 4; n++) tdef_once(n);
	for (n = 1; n <= 4; n++) sizeof_type(n);
	for (n = 1; n <= 3; n++) sizeof_noeval(n);
	for (n = 1; n <= 3; n++) sizeof_eval(n);
	for (n = 1; n <= 3; n++) alignof_vla(n);
	for (n = 1; n <= 4; n++) ptr_typedef(n);
	printf("calls: %d\n", calls);
	printf("sum: %u\n", sum);
	return sum & 63;
}
