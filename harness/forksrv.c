/*
 * Fork-server executor for cproc-qbe (see DESIGN.md 3.2).
 *
 * Linked with all compiler objects of $VERIF_REPO, main.c compiled with
 * -Dmain=cproc_main.  Protocol on the fds inherited as 0/1 (moved to 200/201):
 *
 * request:  u32 mode, u32 cpu_s, u32 argc, argc*(u32 len, bytes), u32 inlen, bytes
 *           mode 0: run cproc_main(argv) with stdin = input
 *           mode 1: token dump (scanfrom/ppinit/next), newlines suppressed
 *           mode 2: token dump with PPNEWLINE
 *           mode 9: quit
 * response: i32 status (exit code | 1000+signal), u32 cpu_us,
 *           u32 outlen, bytes, u32 errlen, bytes
 */
#define _GNU_SOURCE
#include <errno.h>
#include <fcntl.h>
#include <signal.h>
#include <stdbool.h>
#include <stdint.h>
#include <stdio.h>
#include <stdlib.h>
#include <string.h>
#include <sys/mman.h>
#include <sys/resource.h>
#include <sys/time.h>
#include <sys/wait.h>
#include <unistd.h>
#include "util.h"
#include "cc.h"

int cproc_main(int, char **);

enum { RFD = 200, WFD = 201 };

static void
die(const char *msg)
{
	dprintf(2, "forksrv: %s: %s\n", msg, strerror(errno));
	_exit(111);
}

static void
readall(int fd, void *buf, size_t n)
{
	char *p = buf;
	ssize_t r;

	while (n) {
		r = read(fd, p, n);
		if (r == 0)
			_exit(0);  /* client went away */
		if (r < 0) {
			if (errno == EINTR)
				continue;
			die("read");
		}
		p += r, n -= r;
	}
}

static void
writeall(int fd, const void *buf, size_t n)
{
	const char *p = buf;
	ssize_t r;

	while (n) {
		r = write(fd, p, n);
		if (r < 0) {
			if (errno == EINTR)
				continue;
			die("write");
		}
		p += r, n -= r;
	}
}

static uint32_t
rd32(void)
{
	uint32_t v;

	readall(RFD, &v, 4);
	return v;
}

static void
sendfd(int fd)
{
	off_t len = lseek(fd, 0, SEEK_END);
	uint32_t n = len > 0x7fffffff ? 0x7fffffff : (uint32_t)len;
	char *p = NULL;

	writeall(WFD, &n, 4);
	if (n) {
		p = mmap(NULL, n, PROT_READ, MAP_SHARED, fd, 0);
		if (p == MAP_FAILED)
			die("mmap");
		writeall(WFD, p, n);
		munmap(p, n);
	}
}

static void
puttok(void)
{
	const char *class, *s;
	const unsigned char *p;

	switch (tok.kind) {
	case TIDENT: class = "ident"; break;
	case TNUMBER: class = "number"; break;
	case TCHARCONST: class = "char"; break;
	case TSTRINGLIT: class = "string"; break;
	case TOTHER: class = "other"; break;
	case TNEWLINE: class = "newline"; break;
	default:
		class = tok.kind >= TLBRACK ? "punct" : tok.kind >= TALIGNAS ? "kw" : "unknown";
	}
	s = tok.lit ? tok.lit : tok.kind == TNEWLINE ? "" : tokstr[tok.kind];
	if (!s)
		s = "<null>";
	printf("%s\t%d\t", class, (int)tok.kind);
	for (p = (const unsigned char *)s; *p; ++p) {
		if (*p < 0x21 || *p > 0x7e || *p == '\\')
			printf("\\x%02x", *p);
		else
			putchar(*p);
	}
	printf("\t%s\t%zu\t%zu\t%d\n", tok.loc.file ? tok.loc.file : "", tok.loc.line, tok.loc.col, (int)tok.space);
}

static int
tokens(bool newlines)
{
	argv0 = "cproc-qbe";
	targinit(NULL);
	scanfrom("<stdin>", stdin);
	ppinit();
	if (newlines)
		ppflags |= PPNEWLINE;
	while (tok.kind != TEOF) {
		puttok();
		next();
	}
	fflush(stdout);
	return ferror(stdout) ? 1 : 0;
}

int
main(void)
{
	uint32_t mode, cpu, argc, i, len, inlen;
	char **argv, *in;
	int infd, outfd, errfd, st;
	int32_t status;
	uint32_t cpu_us;
	pid_t pid;
	struct rusage ru;
	struct rlimit rl;

	if (dup2(0, RFD) < 0 || dup2(1, WFD) < 0)
		die("dup2");
	close(0);
	close(1);
	if (open("/dev/null", O_RDONLY) != 0 || open("/dev/null", O_WRONLY) != 1)
		die("open /dev/null");
	fcntl(RFD, F_SETFD, FD_CLOEXEC);
	fcntl(WFD, F_SETFD, FD_CLOEXEC);
	signal(SIGPIPE, SIG_IGN);

	for (;;) {
		mode = rd32();
		if (mode == 9)
			return 0;
		cpu = rd32();
		argc = rd32();
		argv = calloc(argc + 2, sizeof(*argv));
		argv[0] = "cproc-qbe";
		for (i = 0; i < argc; ++i) {
			len = rd32();
			argv[i + 1] = malloc(len + 1);
			readall(RFD, argv[i + 1], len);
			argv[i + 1][len] = 0;
		}
		inlen = rd32();
		in = malloc(inlen + 1);
		readall(RFD, in, inlen);

		infd = memfd_create("in", 0);
		outfd = memfd_create("out", 0);
		errfd = memfd_create("err", 0);
		if (infd < 0 || outfd < 0 || errfd < 0)
			die("memfd_create");
		writeall(infd, in, inlen);
		lseek(infd, 0, SEEK_SET);

		pid = fork();
		if (pid < 0)
			die("fork");
		if (pid == 0) {
			signal(SIGPIPE, SIG_DFL);
			dup2(infd, 0);
			dup2(outfd, 1);
			dup2(errfd, 2);
			close(infd), close(outfd), close(errfd);
			close(RFD), close(WFD);
			rl.rlim_cur = cpu ? cpu : 5;
			rl.rlim_max = rl.rlim_cur + 1;
			setrlimit(RLIMIT_CPU, &rl);
			rl.rlim_cur = rl.rlim_max = 1u << 28;
			setrlimit(RLIMIT_FSIZE, &rl);
			rl.rlim_cur = rl.rlim_max = 0;
			setrlimit(RLIMIT_CORE, &rl);
#ifndef FS_SANITIZED
			rl.rlim_cur = rl.rlim_max = (rlim_t)4 << 30;
			setrlimit(RLIMIT_AS, &rl);
#endif
			if (mode == 0)
				st = cproc_main(argc + 1, argv);
			else
				st = tokens(mode == 2);
			exit(st);
		}
		if (wait4(pid, &st, 0, &ru) != pid)
			die("wait4");
		if (WIFEXITED(st))
			status = WEXITSTATUS(st);
		else
			status = 1000 + WTERMSIG(st);
		cpu_us = (ru.ru_utime.tv_sec + ru.ru_stime.tv_sec) * 1000000u + ru.ru_utime.tv_usec + ru.ru_stime.tv_usec;
		writeall(WFD, &status, 4);
		writeall(WFD, &cpu_us, 4);
		sendfd(outfd);
		sendfd(errfd);
		close(infd), close(outfd), close(errfd);
		for (i = 0; i < argc; ++i)
			free(argv[i + 1]);
		free(argv);
		free(in);
	}
}
