/*
 * K2: simulated process world for /repo's driver.c (properties C17, C18).
 *
 * Linked with the unmodified driver.c compiled with -Dmain=driver_main and a generated config.h.
 * This file defines the libc process/file primitives the driver uses; every place where the
 * world has more than one possible answer is a numbered choice point.
 *
 *   drvmc run [-c c0,c1,...] [-p POLICY] [-b BOUND] [-L] -- ARGV...   one execution, full event log
 *   drvmc batch [-p POLICY]                                         command lines from stdin (one per
 *                                                                  line, words separated by \x1f); zero faults
 *   drvmc explore [-p POLICY] [-b BOUND] [-L] [-F] -- ARGV...      depth-first over all choice sequences
 *                                                                  within the fault bound; invariants I1-I5
 *   -L also offers the "large output" class (a writer can block on a full pipe)
 *   -F also offers the "foreign child returned by wait()" deviation
 *   -N disables quiescent-state pruning (complete product of the schedules of successive pipelines)
 *
 * Choice points: fate of every spawned process, failure of posix_spawnp/pipe/fcntl/mkstemp,
 * which terminable process terminates next / which zombie wait() returns.
 */
#define _GNU_SOURCE
#include <errno.h>
#include <fcntl.h>
#include <signal.h>
#include <spawn.h>
#include <stdarg.h>
#include <stdbool.h>
#include <stdint.h>
#include <stdio.h>
#include <stdlib.h>
#include <string.h>
#include <sys/mman.h>
#include <sys/syscall.h>
#include <sys/wait.h>
#include <unistd.h>

int driver_main(int, char **);

enum { MAXP = 64, MAXPIPE = 64, MAXFILE = 64, MAXCH = 256, LOGSZ = 1 << 16, VFD0 = 100, MAXFD = 128 };

enum fate { FT_OK, FT_EARLY, FT_HALF, FT_LATE, FT_SEGV, FT_KILL9, NFATE };
static const char *fatename[] = {"ok", "exit1-before-reading", "exit1-after-half", "exit1-after-finishing", "SIGSEGV", "SIGKILL"};

enum pstate { P_RUNNING, P_ZOMBIE, P_REAPED };

struct proc {
	pid_t pid;
	int stage;          /* 0 pp 1 compile 2 codegen 3 assemble 4 link, -1 unknown */
	enum fate fate;
	bool large;
	enum pstate state;
	int status;         /* wait status once zombie */
	bool sigterm;       /* SIGTERM delivered by the driver */
	int in, out;        /* pipe index or -1 */
	int extra_r[MAXPIPE], extra_w[MAXPIPE];  /* inherited (non-cloexec) ends */
	char outfile[128];
	bool manifested;
};

struct vfd {
	bool open, cloexec;
	int pipe;     /* pipe index or -1 (mkstemp file) */
	bool wr;
};

struct shared {
	/* input */
	int nprefix;
	unsigned char prefix[MAXCH];
	/* output */
	int nchoice;
	unsigned char taken[MAXCH], avail[MAXCH];
	int exited;          /* 1 once the exit hook ran */
	int status;
	int nviol;
	char viol[8][160];
	int nspawn, faults_manifested, max_open_fds;
	int nq;                    /* quiescent points: a new pipeline starts while no process is alive */
	int qpos[32];
	uint64_t qhash[32];
	size_t loglen;
	char log[LOGSZ];
};

static struct shared *sh;
static struct proc procs[MAXP];
static int nprocs;
static struct vfd vfds[MAXFD];
static int npipes;
static char files[MAXFILE][128];
static bool fexists[MAXFILE], ftemp[MAXFILE];
static int nfiles;
static int bound = 0, cost = 0, policy = 0;
static char **drv_argv;
static int drv_argc;
static bool optlarge, optforeign, optnoprune, quiet;
static int optreadlink;        /* -R: 0 the link resolves, 1 readlink fails (no /proc), 2 the target fills the buffer */
static char *optargv0 = "cproc";  /* -A: argv[0] of the driver */
static bool observed_failure, env_fault, foreign_done;
static pid_t nextpid = 1000;
static bool inworld;  /* true while the driver is running (interposed calls are live) */

/* ---- logging ---- */

static void
logf_(const char *fmt, ...)
{
	va_list ap;
	int n;

	if (sh->loglen >= LOGSZ - 512)
		return;
	va_start(ap, fmt);
	n = vsnprintf(sh->log + sh->loglen, LOGSZ - sh->loglen, fmt, ap);
	va_end(ap);
	if (n > 0)
		sh->loglen += (size_t)n < LOGSZ - sh->loglen ? (size_t)n : LOGSZ - sh->loglen - 1;
}

static void
violation(const char *fmt, ...)
{
	va_list ap;

	if (sh->nviol < 8) {
		va_start(ap, fmt);
		vsnprintf(sh->viol[sh->nviol], sizeof(sh->viol[0]), fmt, ap);
		va_end(ap);
	}
	++sh->nviol;
}

/* ---- choices ---- */

/* choose among n alternatives whose costs are given (NULL = all free); only affordable ones are offered */
static int
choose(int n, const int *costs, const char *what)
{
	int map[16], m = 0, i, c;

	for (i = 0; i < n && m < 16; ++i) {
		if (!costs || cost + costs[i] <= bound)
			map[m++] = i;
	}
	if (m <= 1)
		return m ? map[0] : 0;
	if (sh->nchoice >= MAXCH) {
		violation("harness: too many choice points");
		return map[0];
	}
	if (sh->nchoice < sh->nprefix) {
		c = sh->prefix[sh->nchoice];
		if (c >= m) {
			violation("harness: replay diverged at choice %d (%s): %d >= %d", sh->nchoice, what, c, m);
			c = 0;
		}
	} else {
		c = 0;
	}
	sh->taken[sh->nchoice] = c;
	sh->avail[sh->nchoice] = m;
	++sh->nchoice;
	if (costs)
		cost += costs[map[c]];
	return map[c];
}

/* ---- model ---- */

static struct proc *
findproc(pid_t pid)
{
	int i;

	for (i = nprocs - 1; i >= 0; --i) {
		if (procs[i].pid == pid && procs[i].state != P_REAPED)
			return &procs[i];
	}
	return NULL;
}

static bool
pipe_has_writer(int p)
{
	int i;

	for (i = 0; i < MAXFD; ++i) {
		if (vfds[i].open && vfds[i].pipe == p && vfds[i].wr)
			return true;
	}
	for (i = 0; i < nprocs; ++i) {
		if (procs[i].state == P_RUNNING && (procs[i].out == p || procs[i].extra_w[p]))
			return true;
	}
	return false;
}

static bool
pipe_has_reader_holder(int p)
{
	int i;

	for (i = 0; i < MAXFD; ++i) {
		if (vfds[i].open && vfds[i].pipe == p && !vfds[i].wr)
			return true;
	}
	for (i = 0; i < nprocs; ++i) {
		if (procs[i].state == P_RUNNING && (procs[i].in == p || procs[i].extra_r[p]))
			return true;
	}
	return false;
}

static bool
pipe_consumed(int p)
{
	int i;

	for (i = 0; i < nprocs; ++i) {
		if (procs[i].state == P_RUNNING && procs[i].in == p && !procs[i].sigterm
		    && (procs[i].fate == FT_OK || procs[i].fate == FT_LATE || procs[i].fate == FT_HALF))
			return true;
	}
	return false;
}

/* can p terminate now, and with which wait status? */
static bool
can_terminate(struct proc *p, int *status)
{
	if (p->sigterm) {
		*status = SIGTERM;
		return true;
	}
	switch (p->fate) {
	case FT_EARLY:
	case FT_HALF:
		*status = 1 << 8;
		return true;
	case FT_SEGV:
		*status = SIGSEGV;
		return true;
	case FT_KILL9:
		*status = SIGKILL;
		return true;
	default:
		break;
	}
	if (p->in >= 0 && pipe_has_writer(p->in))
		return false;  /* no EOF yet */
	if (p->out >= 0 && p->large && !pipe_consumed(p->out)) {
		if (pipe_has_reader_holder(p->out))
			return false;  /* blocked on a full pipe nobody drains */
		*status = SIGPIPE;
		return true;
	}
	*status = p->fate == FT_LATE ? 1 << 8 : 0;
	return true;
}

static void
terminate(struct proc *p, int status)
{
	p->state = P_ZOMBIE;
	p->status = status;
	if (status != 0 && !p->sigterm) {
		p->manifested = true;
		++sh->faults_manifested;
	}
	logf_("term pid=%d stage=%d status=%d\n", (int)p->pid, p->stage, status);
}

static int
filefind(const char *path, bool add)
{
	int i;

	for (i = 0; i < nfiles; ++i) {
		if (strcmp(files[i], path) == 0)
			return i;
	}
	if (!add || nfiles == MAXFILE)
		return -1;
	snprintf(files[nfiles], sizeof(files[0]), "%s", path);
	return nfiles++;
}

static int
allocfd(void)
{
	int i, n = 0;

	for (i = 0; i < MAXFD; ++i)
		n += vfds[i].open;
	if (n + 1 > sh->max_open_fds)
		sh->max_open_fds = n + 1;
	for (i = 0; i < MAXFD; ++i) {
		if (!vfds[i].open) {
			vfds[i].open = true;
			vfds[i].cloexec = false;
			vfds[i].pipe = -1;
			vfds[i].wr = false;
			return i;
		}
	}
	return -1;
}

/* ---- interposed primitives ---- */

struct actions {
	int n;
	int from[8], to[8];
};

int
posix_spawn_file_actions_init(posix_spawn_file_actions_t *a)
{
	struct actions *x = (struct actions *)a;

	_Static_assert(sizeof(struct actions) <= sizeof(posix_spawn_file_actions_t), "actions fit");
	x->n = 0;
	return 0;
}

int
posix_spawn_file_actions_adddup2(posix_spawn_file_actions_t *a, int from, int to)
{
	struct actions *x = (struct actions *)a;

	if (x->n < 8) {
		x->from[x->n] = from;
		x->to[x->n] = to;
		++x->n;
	}
	return 0;
}

int
posix_spawn_file_actions_destroy(posix_spawn_file_actions_t *a)
{
	(void)a;
	return 0;
}

static int
stageof(const char *cmd)
{
	size_t n = strlen(cmd);

	if (strcmp(cmd, "PP") == 0)
		return 0;
	if (n >= 4 && strcmp(cmd + n - 4, "-qbe") == 0)
		return 1;
	if (strcmp(cmd, "CG") == 0)
		return 2;
	if (strcmp(cmd, "AS") == 0)
		return 3;
	if (strcmp(cmd, "LD") == 0)
		return 4;
	return -1;
}

static uint64_t
mix(uint64_t h, uint64_t v)
{
	h ^= v + 0x9e3779b97f4a7c15ull + (h << 6) + (h >> 2);
	return h * 0xff51afd7ed558ccdull;
}

/* hash of the complete world state at a quiescent point */
static uint64_t
worldhash(const char *file, char *const argv[])
{
	uint64_t h = 1469598103934665603ull;
	int i;
	const char *p;

	h = mix(h, cost), h = mix(h, observed_failure), h = mix(h, env_fault), h = mix(h, foreign_done);
	h = mix(h, nextpid), h = mix(h, nprocs), h = mix(h, npipes), h = mix(h, sh->faults_manifested);
	for (i = 0; i < MAXFD; ++i)
		h = mix(h, vfds[i].open | vfds[i].cloexec << 1 | vfds[i].wr << 2 | (uint64_t)(vfds[i].pipe + 1) << 3);
	for (i = 0; i < nfiles; ++i) {
		for (p = files[i]; *p; ++p)
			h = mix(h, (unsigned char)*p);
		h = mix(h, fexists[i] | ftemp[i] << 1);
	}
	for (p = file; *p; ++p)
		h = mix(h, (unsigned char)*p);
	for (i = 0; argv[i]; ++i)
		for (p = argv[i]; *p; ++p)
			h = mix(h, (unsigned char)*p);
	return h;
}

int
posix_spawnp(pid_t *pid, const char *file, const posix_spawn_file_actions_t *fa, const posix_spawnattr_t *attr,
             char *const argv[], char *const envp[])
{
	static const int spawncost[] = {0, 1};
	static const int fatecost[] = {0, 1, 1, 1, 1, 1};
	static const int largecost[] = {0, 0};
	const struct actions *x = (const struct actions *)fa;
	struct proc *p;
	int i, fd, k;
	pid_t newpid;

	(void)attr, (void)envp;
	++sh->nspawn;
	if (observed_failure)
		violation("I2: %s spawned after a failure had been observed", file);
	for (i = 0; i < nprocs; ++i) {
		if (procs[i].state != P_REAPED)
			break;
	}
	if (i == nprocs && nprocs > 0 && sh->nq < 32 && !optnoprune) {
		sh->qpos[sh->nq] = sh->nchoice;
		sh->qhash[sh->nq++] = worldhash(file, argv);
	}
	logf_("spawn cmd=%s argv=", file);
	for (i = 0; argv[i]; ++i)
		logf_("%s%s", i ? "\x1f" : "", argv[i]);
	if (choose(2, spawncost, "spawn-fails")) {
		logf_(" -> ENOENT\n");
		env_fault = true;
		observed_failure = true;
		++sh->faults_manifested;
		return ENOENT;
	}
	if (nprocs == MAXP) {
		violation("harness: too many processes");
		return EAGAIN;
	}
	/* pid policy: 0 increasing, 1 reuse the lowest free pid */
	if (policy == 1) {
		for (newpid = 1000;; ++newpid) {
			for (i = 0; i < nprocs; ++i) {
				if (procs[i].pid == newpid && procs[i].state != P_REAPED)
					break;
			}
			if (i == nprocs)
				break;
		}
	} else {
		newpid = nextpid++;
	}
	p = &procs[nprocs++];
	memset(p, 0, sizeof(*p));
	p->pid = newpid;
	p->stage = stageof(file);
	p->in = p->out = -1;
	p->state = P_RUNNING;
	for (k = 0; x && k < x->n; ++k) {
		fd = x->from[k] - VFD0;
		if (fd < 0 || fd >= MAXFD || !vfds[fd].open || vfds[fd].pipe < 0) {
			violation("spawn: dup2 from fd %d which is not an open pipe end", x->from[k]);
			continue;
		}
		if (x->to[k] == 0 && !vfds[fd].wr)
			p->in = vfds[fd].pipe;
		else if (x->to[k] == 1 && vfds[fd].wr)
			p->out = vfds[fd].pipe;
		else
			violation("spawn: pipe end of the wrong direction dup2'ed to fd %d", x->to[k]);
	}
	/* ends without close-on-exec leak into the child */
	for (i = 0; i < MAXFD; ++i) {
		if (vfds[i].open && !vfds[i].cloexec && vfds[i].pipe >= 0) {
			if (vfds[i].wr)
				p->extra_w[vfds[i].pipe] = 1;
			else
				p->extra_r[vfds[i].pipe] = 1;
		}
	}
	for (i = 0; argv[i]; ++i) {
		if (strcmp(argv[i], "-o") == 0 && argv[i + 1]) {
			snprintf(p->outfile, sizeof(p->outfile), "%s", argv[i + 1]);
			k = filefind(p->outfile, true);
			if (k >= 0)
				fexists[k] = true;  /* tools create/truncate their output when they start */
		}
	}
	p->fate = choose(NFATE, fatecost, "fate");
	if (optlarge && p->out >= 0)
		p->large = choose(2, largecost, "large-output");
	logf_(" -> pid=%d stage=%d in=%d out=%d fate=%s%s\n", (int)p->pid, p->stage, p->in, p->out, fatename[p->fate], p->large ? " large" : "");
	*pid = p->pid;
	return 0;
}

int
pipe(int fd[2])
{
	static const int costs[] = {0, 1};
	int r, w;

	if (choose(2, costs, "pipe-fails")) {
		logf_("pipe -> EMFILE\n");
		env_fault = observed_failure = true;
		++sh->faults_manifested;
		errno = EMFILE;
		return -1;
	}
	if (npipes == MAXPIPE) {
		violation("harness: too many pipes");
		errno = EMFILE;
		return -1;
	}
	r = allocfd();
	w = allocfd();
	vfds[r].pipe = vfds[w].pipe = npipes++;
	vfds[w].wr = true;
	fd[0] = VFD0 + r;
	fd[1] = VFD0 + w;
	logf_("pipe -> %d r=%d w=%d\n", vfds[r].pipe, fd[0], fd[1]);
	return 0;
}

int
fcntl(int fd, int cmd, ...)
{
	static const int costs[] = {0, 1};
	va_list ap;
	long arg;

	va_start(ap, cmd);
	arg = va_arg(ap, long);
	va_end(ap);
	if (!inworld)
		return syscall(SYS_fcntl, fd, cmd, arg);
	if (fd < VFD0 || fd >= VFD0 + MAXFD || !vfds[fd - VFD0].open) {
		violation("fcntl on fd %d which the world did not hand out or is closed", fd);
		errno = EBADF;
		return -1;
	}
	if (choose(2, costs, "fcntl-fails")) {
		logf_("fcntl %d -> EINVAL\n", fd);
		env_fault = observed_failure = true;
		++sh->faults_manifested;
		errno = EINVAL;
		return -1;
	}
	if (cmd == F_SETFD)
		vfds[fd - VFD0].cloexec = (arg & FD_CLOEXEC) != 0;
	return 0;
}

int
close(int fd)
{
	if (!inworld || fd < VFD0)
		return syscall(SYS_close, fd);
	if (fd >= VFD0 + MAXFD || !vfds[fd - VFD0].open) {
		violation("close of fd %d which is not open (double close)", fd);
		errno = EBADF;
		return -1;
	}
	vfds[fd - VFD0].open = false;
	logf_("close %d\n", fd);
	return 0;
}

int
mkstemp(char *template)
{
	static const int costs[] = {0, 1};
	static int serial;
	size_t n = strlen(template);
	int fd, k;

	if (choose(2, costs, "mkstemp-fails")) {
		logf_("mkstemp -> EACCES\n");
		env_fault = observed_failure = true;
		++sh->faults_manifested;
		errno = EACCES;
		return -1;
	}
	if (n < 6 || strcmp(template + n - 6, "XXXXXX") != 0) {
		errno = EINVAL;
		return -1;
	}
	snprintf(template + n - 6, 7, "t%05d", ++serial);
	k = filefind(template, true);
	if (k >= 0) {
		fexists[k] = true;
		ftemp[k] = true;
	}
	fd = allocfd();
	logf_("mkstemp -> %s fd=%d\n", template, VFD0 + fd);
	return VFD0 + fd;
}

int
unlink(const char *path)
{
	int k = filefind(path, false), i;

	logf_("unlink %s%s\n", path, k >= 0 && fexists[k] ? "" : " (ENOENT)");
	/* I6: the driver only removes what it or its stages created, never a file named as an input on the command line */
	if (k < 0 && inworld) {
		for (i = 1; i < drv_argc; ++i) {
			if (strcmp(drv_argv[i], path) == 0 && strcmp(drv_argv[i - 1], "-o") != 0 && drv_argv[i][0] != '-')
				violation("I6: unlink of the input file %s, which the driver did not create", path);
		}
	}
	if (k < 0 || !fexists[k]) {
		errno = ENOENT;
		return -1;
	}
	fexists[k] = false;
	return 0;
}

ssize_t
readlink(const char *path, char *buf, size_t len)
{
	static const char self[] = "/world/bin/cproc";

	(void)path;
	if (optreadlink == 1) {
		errno = ENOENT;
		return -1;
	}
	if (optreadlink == 2) {
		memset(buf, 'x', len);
		return len;
	}
	if (len < sizeof(self) - 1)
		return -1;
	memcpy(buf, self, sizeof(self) - 1);
	return sizeof(self) - 1;
}

int
kill(pid_t pid, int sig)
{
	struct proc *p;
	int i;

	logf_("kill pid=%d sig=%d\n", (int)pid, sig);
	if (pid <= 0) {
		violation("I5: kill(%d, %d): process group / broadcast", (int)pid, sig);
		return 0;
	}
	for (p = NULL, i = nprocs - 1; i >= 0; --i) {
		if (procs[i].pid == pid) {
			p = &procs[i];
			break;
		}
	}
	if (!p) {
		violation("I5: kill(%d) of a pid the driver never spawned", (int)pid);
		errno = ESRCH;
		return -1;
	}
	if (p->state == P_REAPED) {
		violation("I5: kill(%d) of a process that was already reaped (pid may have been reused)", (int)pid);
		errno = ESRCH;
		return -1;
	}
	if (p->state == P_RUNNING && sig == SIGTERM)
		p->sigterm = true;
	return 0;
}

static pid_t
dowait(pid_t want, int *status)
{
	static const int fcost[] = {0, 1};
	struct proc *cand[MAXP];
	int cstat[MAXP], ccost[2 * MAXP], n, i, st, c, nlive;

	for (;;) {
		n = 0;
		nlive = 0;
		for (i = 0; i < nprocs; ++i) {
			struct proc *p = &procs[i];

			if (p->state == P_REAPED || (want > 0 && p->pid != want))
				continue;
			++nlive;
			if (p->state == P_ZOMBIE) {
				cand[n] = p, cstat[n] = -1;
				ccost[n++] = 0;
			} else if (can_terminate(p, &st)) {
				cand[n] = p, cstat[n] = st;
				ccost[n++] = 0;
			}
		}
		if (nlive == 0) {
			logf_("wait -> ECHILD\n");
			errno = ECHILD;
			return -1;
		}
		if (optforeign && want <= 0 && !foreign_done) {
			if (choose(2, fcost, "foreign-child")) {
				foreign_done = true;
				logf_("wait -> foreign pid=77777\n");
				*status = 0;
				return 77777;
			}
		}
		if (n == 0) {
			violation("I5: deadlock: driver waits, %d children alive, none can ever terminate", nlive);
			logf_("wait -> DEADLOCK\n");
			exit(97);
		}
		c = choose(n, ccost, "wait-next");
		if (cstat[c] >= 0) {
			terminate(cand[c], cstat[c]);
			continue;  /* it is a zombie now; choose again who is returned */
		}
		cand[c]->state = P_REAPED;
		*status = cand[c]->status;
		if (cand[c]->status != 0)
			observed_failure = true;
		logf_("wait -> pid=%d status=%d\n", (int)cand[c]->pid, cand[c]->status);
		return cand[c]->pid;
	}
}

pid_t
wait(int *status)
{
	int st;
	pid_t r = dowait(-1, &st);

	if (status)
		*status = st;
	return r;
}

pid_t
waitpid(pid_t pid, int *status, int options)
{
	int st;
	pid_t r;

	(void)options;
	if (pid > 0 && !findproc(pid)) {
		logf_("waitpid %d -> ECHILD\n", (int)pid);
		errno = ECHILD;
		return -1;
	}
	r = dowait(pid, &st);
	if (status)
		*status = st;
	return r;
}

/* ---- end of run ---- */

static bool linkmode;   /* the driver reached the link step or would have */

static void
atend(int status, void *arg)
{
	int i;
	bool anyfault;

	(void)arg;
	if (!inworld)
		return;
	inworld = false;
	sh->status = status;
	logf_("exit %d\n", status);
	if (status == 97 || status == 2) {
		if (status == 2 && (sh->nspawn || nfiles))
			violation("usage error (status 2) after %d spawns / %d files created", sh->nspawn, nfiles);
		sh->exited = 1;
		return;  /* deadlock already reported / usage error before anything ran */
	}
	anyfault = sh->faults_manifested > 0;
	/* I1 */
	if (status == 0 && anyfault)
		violation("I1: exit status 0 although a fault manifested");
	if (status != 0 && !anyfault)
		violation("I1: exit status %d although no fault manifested", status);
	if (status != 0 && status != 1)
		violation("I1: exit status %d (only 0, 1 and 2 for usage are expected)", status);
	/* I3 */
	for (i = 0; i < nprocs; ++i) {
		if (procs[i].state == P_RUNNING)
			violation("I3: process %d (stage %d) still running when the driver exits", (int)procs[i].pid, procs[i].stage);
		else if (procs[i].state == P_ZOMBIE)
			violation("I3: process %d (stage %d) terminated but never reaped", (int)procs[i].pid, procs[i].stage);
	}
	/* I4 */
	for (i = 0; i < nfiles; ++i) {
		if (ftemp[i] && fexists[i])
			violation("I4: temporary file %s left behind (exit status %d)", files[i], status);
	}
	for (i = 0; i < nprocs; ++i) {
		int k;

		if (!procs[i].outfile[0])
			continue;
		k = filefind(procs[i].outfile, false);
		if (k < 0 || ftemp[k])
			continue;
		if (procs[i].manifested && fexists[k] && procs[i].stage != 4)
			violation("I4: output %s of the failed stage %d still exists", files[k], procs[i].stage);
		if (status == 0 && !fexists[k])
			violation("I4: output %s missing after a successful run", files[k]);
	}
	/* the pipeline whose stage failed: its last stage's output must be gone even if that stage itself was fine */
	for (i = 0; i < nprocs; ++i) {
		int j, k;

		if (!procs[i].manifested || procs[i].stage == 4)
			continue;
		/* find the last stage spawned in the same pipeline: consecutive spawns connected by pipes */
		for (j = i; j + 1 < nprocs && procs[j].out >= 0 && procs[j + 1].in == procs[j].out; ++j)
			;
		if (procs[j].outfile[0]) {
			k = filefind(procs[j].outfile, false);
			if (k >= 0 && fexists[k] && !ftemp[k])
				violation("I4: output %s of the pipeline in which stage %d failed still exists", files[k], procs[i].stage);
		}
	}
	(void)linkmode;
	sh->exited = 1;
}

/* ---- explorer ---- */


static void
child(void)
{
	int fd;

	alarm(10);
	if (quiet) {
		fd = syscall(SYS_open, "/dev/null", O_WRONLY);
		if (fd >= 0) {
			syscall(SYS_dup2, fd, 2);
			syscall(SYS_dup2, fd, 1);
			syscall(SYS_close, fd);
		}
	}
	on_exit(atend, NULL);
	inworld = true;
	exit(driver_main(drv_argc, drv_argv));
}

static void
runone(const unsigned char *prefix, int n)
{
	pid_t pid;
	int st;

	sh->nprefix = n;
	memcpy(sh->prefix, prefix, n);
	sh->nchoice = 0;
	sh->exited = 0;
	sh->status = -1;
	sh->nviol = 0;
	sh->nspawn = sh->faults_manifested = sh->max_open_fds = 0;
	sh->nq = 0;
	sh->loglen = 0;
	sh->log[0] = 0;
	fflush(stdout);
	pid = fork();
	if (pid < 0) {
		perror("fork");
		_exit(2);
	}
	if (pid == 0)
		child();
	if (syscall(SYS_wait4, pid, &st, 0, NULL) != pid) {
		perror("wait4");
		_exit(2);
	}
	if (WIFSIGNALED(st)) {
		if (sh->nviol < 8)
			snprintf(sh->viol[sh->nviol], sizeof(sh->viol[0]), "driver killed by signal %d%s", WTERMSIG(st),
			         WTERMSIG(st) == SIGALRM ? " (did not terminate within 10 s)" : "");
		++sh->nviol;
	} else if (!sh->exited) {
		if (sh->nviol < 8)
			snprintf(sh->viol[sh->nviol], sizeof(sh->viol[0]), "driver left without running the exit hook (status %d)", WEXITSTATUS(st));
		++sh->nviol;
	}
}

static void
printchoices(void)
{
	int i;

	for (i = 0; i < sh->nchoice; ++i)
		printf("%s%d", i ? "," : "", sh->taken[i]);
}

static unsigned long nexec, nviolexec, ntrans, maxdepth, nreported, npruned;

static uint64_t *seentab;
static size_t seencap, seenlen;

static bool
seenadd(uint64_t h)
{
	size_t i, j, oc;
	uint64_t *ot;

	if (!h)
		h = 1;
	if (seenlen * 2 >= seencap) {
		oc = seencap, ot = seentab;
		seencap = oc ? oc * 2 : 1024;
		seentab = calloc(seencap, sizeof(*seentab));
		for (j = 0; j < oc; ++j) {
			if (!ot[j])
				continue;
			i = ot[j] & (seencap - 1);
			while (seentab[i])
				i = (i + 1) & (seencap - 1);
			seentab[i] = ot[j];
		}
		free(ot);
	}
	i = h & (seencap - 1);
	while (seentab[i]) {
		if (seentab[i] == h)
			return false;
		i = (i + 1) & (seencap - 1);
	}
	seentab[i] = h;
	++seenlen;
	return true;
}
static unsigned long outcomes[4];  /* exit 0, exit 1, exit other, signal */

static void
explore(const unsigned char *prefix, int n)
{
	unsigned char cur[MAXCH], av[MAXCH];
	int nc, i, alt, v, cutoff;

	runone(prefix, n);
	++nexec;
	nc = sh->nchoice;
	/* quiescent-state pruning: continuations of a world state already expanded are not expanded again */
	cutoff = nc;
	for (i = 0; i < sh->nq; ++i) {
		if (sh->qpos[i] < n)
			continue;  /* lies in the replayed prefix: already accounted for by the parent execution */
		if (!seenadd(sh->qhash[i])) {
			cutoff = sh->qpos[i];
			++npruned;
			break;
		}
	}
	ntrans += nc;
	if ((unsigned long)nc > maxdepth)
		maxdepth = nc;
	memcpy(cur, sh->taken, nc);
	memcpy(av, sh->avail, nc);
	if (sh->status == 0)
		++outcomes[0];
	else if (sh->status == 1)
		++outcomes[1];
	else
		++outcomes[2];
	if (sh->nviol) {
		++nviolexec;
		if (nreported < 200) {
			++nreported;
			for (v = 0; v < sh->nviol && v < 8; ++v) {
				printf("VIOL choices=");
				printchoices();
				printf(" what=%s\n", sh->viol[v]);
			}
		}
	}
	for (i = n; i < nc && i < cutoff; ++i) {
		for (alt = 1; alt < av[i]; ++alt) {
			cur[i] = alt;
			explore(cur, i + 1);
		}
		cur[i] = 0;
	}
}

static void
printrun(void)
{
	int v;

	printf("CHOICES ");
	printchoices();
	printf("\nAVAIL ");
	for (v = 0; v < sh->nchoice; ++v)
		printf("%s%d", v ? "," : "", sh->avail[v]);
	printf("\n%s", sh->log);
	printf("STATUS %d spawns=%d faults=%d maxfds=%d\n", sh->status, sh->nspawn, sh->faults_manifested, sh->max_open_fds);
	for (v = 0; v < sh->nviol && v < 8; ++v)
		printf("VIOL what=%s\n", sh->viol[v]);
	printf("END\n");
}

int
main(int argc, char *argv[])
{
	unsigned char prefix[MAXCH];
	int n = 0, i;
	char *mode, *p, line[8192], *words[64];

	if (argc < 2) {
		fprintf(stderr, "usage: drvmc run|batch|explore [-c choices] [-p policy] [-b bound] [-L] [-F] -- argv...\n");
		return 2;
	}
	sh = mmap(NULL, sizeof(*sh), PROT_READ | PROT_WRITE, MAP_SHARED | MAP_ANONYMOUS, -1, 0);
	if (sh == MAP_FAILED) {
		perror("mmap");
		return 2;
	}
	mode = argv[1];
	for (i = 2; i < argc && strcmp(argv[i], "--") != 0; ++i) {
		if (strcmp(argv[i], "-c") == 0 && i + 1 < argc) {
			for (p = strtok(argv[++i], ","); p; p = strtok(NULL, ","))
				prefix[n++] = atoi(p);
		} else if (strcmp(argv[i], "-p") == 0 && i + 1 < argc) {
			policy = atoi(argv[++i]);
		} else if (strcmp(argv[i], "-b") == 0 && i + 1 < argc) {
			bound = atoi(argv[++i]);
		} else if (strcmp(argv[i], "-L") == 0) {
			optlarge = true;
		} else if (strcmp(argv[i], "-F") == 0) {
			optforeign = true;
		} else if (strcmp(argv[i], "-N") == 0) {
			optnoprune = true;
		} else if (strcmp(argv[i], "-R") == 0 && i + 1 < argc) {
			optreadlink = atoi(argv[++i]);
		} else if (strcmp(argv[i], "-A") == 0 && i + 1 < argc) {
			optargv0 = argv[++i];
		}
	}
	quiet = true;
	if (strcmp(mode, "batch") == 0) {
		while (fgets(line, sizeof(line), stdin)) {
			line[strcspn(line, "\n")] = 0;
			drv_argc = 0;
			words[drv_argc++] = optargv0;
			for (p = line; *p && drv_argc < 62;) {
				words[drv_argc++] = p;
				p += strcspn(p, "\x1f");
				if (*p)
					*p++ = 0;
			}
			words[drv_argc] = NULL;
			drv_argv = words;
			runone(prefix, 0);
			printrun();
		}
		return 0;
	}
	if (i >= argc) {
		fprintf(stderr, "missing -- argv\n");
		return 2;
	}
	argv[i] = optargv0;
	drv_argv = &argv[i];
	drv_argc = argc - i;
	if (strcmp(mode, "run") == 0) {
		quiet = false;
		runone(prefix, n);
		printrun();
		return sh->nviol ? 1 : 0;
	}
	explore(prefix, n);
	printf("{\"executions\":%lu,\"violating_executions\":%lu,\"transitions\":%lu,\"max_choice_depth\":%lu,"
	       "\"exit0\":%lu,\"exit1\":%lu,\"exit_other\":%lu,\"bound\":%d,\"policy\":%d,\"pruned_at_quiescent_state\":%lu,\"quiescent_states\":%zu}\n",
	       nexec, nviolexec, ntrans, maxdepth, outcomes[0], outcomes[1], outcomes[2], bound, policy, npruned, seenlen);
	return nviolexec ? 1 : 0;
}
