/*
 * K1 explicit-state model checker for /repo's map.c (property C16).
 *
 * mapmc bfs CAP0 DEPTH [OPMODE [dump]]   BFS (OPMODE 1: first insertions only, to reach deep growth)
 *                               BFS over operation histories from mapinit(CAP0), deduplicated on the
 *                               exact table contents (cap, per-slot key id and value id)
 * mapmc replay CAP0 op,op,...   replay one history (op = key*4 + value, value 3 = free+reinit)
 * mapmc long N STRIDE           N-operation deterministic history with real mapkey() hashes
 *
 * Keys have forged hashes so that they collide at every capacity, wrap around the table end,
 * share a full hash with different bytes, or are prefixes of one another.
 * In every state: mapget(k) == reference for every key of the alphabet; len == number of distinct
 * keys; an empty slot exists; no key stored twice; mapfree visits exactly the stored values.
 * Every operation runs under a step timer: a stuck probe loop is reported, not hung on.
 */
#include <signal.h>
#include <stdbool.h>
#include <stdint.h>
#include <stdio.h>
#include <stdlib.h>
#include <string.h>
#include <sys/time.h>
#include <unistd.h>
#include "util.h"

extern char *argv0;

enum { NKEYS = 11, MAXD = 32 };

static struct {
	unsigned long hash;
	const char *str;
} alpha[NKEYS] = {
	{0x10, "a"},                      /* 0: low four bits equal with 1, 2 */
	{0x20, "b"},
	{0x30, "c"},
	{0x55, "xy"},                     /* 3,4: same full hash, same length, different bytes */
	{0x55, "xz"},
	{~0ul, "p"},                      /* 5: last slot at every capacity */
	{~0ul >> 1, "q"},                 /* 6: last slot too: wraps to slot 0 */
	{0x55, "x"},                      /* 7: prefix of 3 with the same hash (length compare) */
	{0, "z"},                         /* 8: slot 0, meets the wrap-around */
	{1, "w"},                         /* 9 */
	{0x1f, "v"},                      /* 10: last slot up to cap 32 */
};

static long valobj[4];  /* values are pointers to these; index 0 = NULL */
static int CAP0, DEPTH, OPMODE;
static unsigned long nstates, ntrans, nviol, ngets, ngrow, nfree;
static const unsigned char *curhist;
static int curlen, curop = -1;

static void
printhist(const unsigned char *h, int len)
{
	int i;

	for (i = 0; i < len; ++i)
		printf("%s%d", i ? "," : "", h[i]);
}

static void
violation(const char *what)
{
	printf("VIOL %s cap0=%d history=", what, CAP0);
	printhist(curhist, curlen);
	if (curop >= 0)
		printf(" then=%d", curop);
	printf("\n");
	fflush(stdout);
	++nviol;
}

static void
stats(const char *mode)
{
	printf("{\"mode\":\"%s\",\"cap0\":%d,\"depth\":%d,\"states\":%lu,\"transitions\":%lu,\"gets_checked\":%lu,"
	       "\"growths\":%lu,\"frees\":%lu,\"violations\":%lu}\n", mode, CAP0, DEPTH, nstates, ntrans, ngets, ngrow, nfree, nviol);
	fflush(stdout);
}

static void
onalarm(int sig)
{
	(void)sig;
	violation("hang-in-map-operation");
	stats("aborted");
	_exit(1);
}

static void
arm(void)
{
	struct itimerval it = {{0, 0}, {2, 0}};

	setitimer(ITIMER_REAL, &it, NULL);
}

static void
disarm(void)
{
	struct itimerval it = {{0, 0}, {0, 0}};

	setitimer(ITIMER_REAL, &it, NULL);
}

static void
mkkey(struct mapkey *k, int id)
{
	/* a fresh copy of the bytes each time: equality must not depend on pointer identity */
	k->str = strdup(alpha[id].str);
	k->len = strlen(alpha[id].str);
	k->hash = alpha[id].hash;
}

static int
keyid(const struct mapkey *k)
{
	int i;

	for (i = 0; i < NKEYS; ++i) {
		if (k->len == strlen(alpha[i].str) && memcmp(k->str, alpha[i].str, k->len) == 0)
			return i;
	}
	return -1;
}

static int
valid(void *v)
{
	int i;

	if (!v)
		return 0;
	for (i = 1; i < 4; ++i)
		if (v == &valobj[i])
			return i;
	return -1;
}

struct ref {
	bool present[NKEYS];
	int val[NKEYS];
	int n;
};

static int delcount, delvals[4];

static void
del(void *v)
{
	int i = valid(v);

	++delcount;
	if (i >= 0)
		++delvals[i];
}

/* apply one op to map+reference; returns false on violation */
static bool
apply(struct map *m, struct ref *r, int op, bool check)
{
	int k = op >> 2, v = op & 3, i;
	struct mapkey key;
	void **slot;
	size_t oldcap;

	curop = op;
	if (v == 3) {
		/* clear: free (with the visitor) and re-initialise */
		int want[4] = {0};

		delcount = 0;
		memset(delvals, 0, sizeof(delvals));
		arm();
		mapfree(m, del);
		disarm();
		++nfree;
		for (i = 0; i < NKEYS; ++i)
			if (r->present[i])
				++want[r->val[i]];
		if (check && (delcount != r->n || memcmp(want, delvals, sizeof(want)) != 0)) {
			violation("mapfree-visits-wrong-values");
			return false;
		}
		mapinit(m, CAP0);
		memset(r, 0, sizeof(*r));
		return true;
	}
	mkkey(&key, k);
	oldcap = m->cap;
	arm();
	slot = mapput(m, &key);
	disarm();
	if (m->cap != oldcap)
		++ngrow;
	if (!slot) {
		violation("mapput-returned-null");
		return false;
	}
	if (check) {
		if (r->present[k] && valid(*slot) != r->val[k]) {
			violation("mapput-existing-key-wrong-slot-value");
			return false;
		}
		if (!r->present[k] && *slot != NULL) {
			violation("mapput-new-key-slot-not-null");
			return false;
		}
	}
	*slot = v ? &valobj[v] : NULL;
	if (!r->present[k]) {
		r->present[k] = true;
		++r->n;
	}
	r->val[k] = v;
	return true;
}

static bool
checkstate(struct map *m, struct ref *r)
{
	int i, id, seen[NKEYS] = {0};
	size_t s, empty = 0;
	struct mapkey key;
	void *v;

	curop = -1;
	if (m->len != (size_t)r->n) {
		violation("len-differs-from-reference");
		return false;
	}
	if (m->cap & (m->cap - 1)) {
		violation("cap-not-power-of-two");
		return false;
	}
	for (s = 0; s < m->cap; ++s) {
		if (!m->keys[s].str) {
			++empty;
			continue;
		}
		id = keyid(&m->keys[s]);
		if (id < 0 || m->keys[s].hash != alpha[id].hash) {
			violation("stored-key-corrupt");
			return false;
		}
		if (seen[id]++) {
			violation("key-stored-twice");
			return false;
		}
		if (!r->present[id] || valid(m->vals[s]) != r->val[id]) {
			violation("stored-value-differs-from-reference");
			return false;
		}
	}
	if (empty == 0) {
		violation("table-full-no-empty-slot");
		return false;
	}
	for (i = 0; i < NKEYS; ++i) {
		mkkey(&key, i);
		arm();
		v = mapget(m, &key);
		disarm();
		free((void *)key.str);
		++ngets;
		if (valid(v) != (r->present[i] ? r->val[i] : 0)) {
			curop = i << 2;
			violation("mapget-differs-from-reference");
			return false;
		}
	}
	return true;
}

static char *
canon(struct map *m, char *p)
{
	size_t s;

	p += sprintf(p, "%zu:", m->cap);
	for (s = 0; s < m->cap; ++s) {
		if (m->keys[s].str)
			p += sprintf(p, "%c%d", 'A' + keyid(&m->keys[s]), valid(m->vals[s]));
		else
			*p++ = '.';
	}
	*p = 0;
	return p;
}

static bool
rebuild(struct map *m, struct ref *r, const unsigned char *h, int len, bool check)
{
	int i;

	mapinit(m, CAP0);
	memset(r, 0, sizeof(*r));
	for (i = 0; i < len; ++i) {
		if (!apply(m, r, h[i], check))
			return false;
	}
	return true;
}

static void
freekeys(struct map *m)
{
	/* key strings are leaked on purpose (tiny); table arrays are freed */
	mapfree(m, NULL);
}

/* ---- set of canonical states ---- */
struct set {
	char **tab;
	size_t cap, len;
};

static unsigned long
strhash(const char *s)
{
	unsigned long h = 1469598103934665603ul;

	for (; *s; ++s)
		h = (h ^ (unsigned char)*s) * 1099511628211ul;
	return h;
}

static bool
setadd(struct set *s, const char *str)
{
	size_t i, j, oc;
	char **ot;

	if (s->len * 2 >= s->cap) {
		oc = s->cap, ot = s->tab;
		s->cap = oc ? oc * 2 : 4096;
		s->tab = calloc(s->cap, sizeof(char *));
		for (j = 0; j < oc; ++j) {
			if (!ot[j])
				continue;
			i = strhash(ot[j]) & (s->cap - 1);
			while (s->tab[i])
				i = (i + 1) & (s->cap - 1);
			s->tab[i] = ot[j];
		}
		free(ot);
	}
	i = strhash(str) & (s->cap - 1);
	while (s->tab[i]) {
		if (strcmp(s->tab[i], str) == 0)
			return false;
		i = (i + 1) & (s->cap - 1);
	}
	s->tab[i] = strdup(str);
	++s->len;
	return true;
}

struct qent {
	unsigned char h[MAXD];
	unsigned char len;
};

static void
bfs(bool dump)
{
	static struct set seen;
	struct qent *q, e;
	size_t head = 0, tail = 0, cap = 1 << 16;
	struct map m, m2;
	struct ref r, r2;
	char c1[4096], c2[4096];
	int op, k, v;

	q = malloc(cap * sizeof(*q));
	q[tail++].len = 0;
	mapinit(&m, CAP0);
	canon(&m, c1);
	setadd(&seen, c1);
	freekeys(&m);
	while (head < tail) {
		e = q[head++];
		curhist = e.h, curlen = e.len;
		if (!rebuild(&m, &r, e.h, e.len, false)) {
			freekeys(&m);
			continue;
		}
		canon(&m, c1);
		/* replay determinism */
		rebuild(&m2, &r2, e.h, e.len, false);
		canon(&m2, c2);
		freekeys(&m2);
		if (strcmp(c1, c2) != 0)
			violation("replay-diverges");
		if (dump) {
			printf("S ");
			printhist(e.h, e.len);
			printf(" %s\n", c1);
		}
		if (!checkstate(&m, &r)) {
			freekeys(&m);
			if (nviol > 20)
				return;
			continue;
		}
		freekeys(&m);
		if (e.len >= DEPTH)
			continue;
		for (k = 0; k <= NKEYS; ++k) {
			for (v = 0; v < 3; ++v) {
				if (OPMODE == 1) {
					/* growth mode: only first insertions, value fixed per key */
					if (k == NKEYS || v != 1 + k % 2)
						continue;
					if (r.present[k])
						continue;
				}
				if (k == NKEYS) {
					if (v)
						break;
					op = 3;  /* clear */
				} else {
					op = k << 2 | v;
				}
				++ntrans;
				curhist = e.h, curlen = e.len;
				if (!rebuild(&m, &r, e.h, e.len, false) || !apply(&m, &r, op, true)) {
					freekeys(&m);
					if (nviol > 20)
						return;
					continue;
				}
				canon(&m, c1);
				freekeys(&m);
				if (setadd(&seen, c1)) {
					if (tail == cap) {
						cap *= 2;
						q = realloc(q, cap * sizeof(*q));
					}
					memcpy(q[tail].h, e.h, e.len);
					q[tail].h[e.len] = op;
					q[tail++].len = e.len + 1;
				}
			}
		}
	}
	nstates = seen.len;
}

static int
longrun(unsigned long n, unsigned long stride)
{
	struct map m;
	unsigned long i, j, mod = 20011, id;
	char **names;
	long *refv;
	struct mapkey k;
	void **slot;
	char buf[64];

	names = calloc(mod, sizeof(*names));
	refv = calloc(mod, sizeof(*refv));
	mapinit(&m, 8);
	for (i = 0; i < n; ++i) {
		id = i * stride % mod;
		if (!names[id]) {
			/* names of varying length, long common prefixes */
			snprintf(buf, sizeof(buf), "%s%lu", id % 3 ? "identifier_with_long_prefix_" : "n", id);
			names[id] = strdup(buf);
		}
		if (i % 3 == 2) {
			mapkey(&k, names[id], strlen(names[id]));
			arm();
			slot = (void **)mapget(&m, &k);
			disarm();
			if ((long)(intptr_t)slot != refv[id]) {
				printf("VIOL long-get-differs n=%lu stride=%lu i=%lu\n", n, stride, i);
				return 1;
			}
		} else {
			snprintf(buf, sizeof(buf), "%s", names[id]);
			mapkey(&k, names[id], strlen(names[id]));
			arm();
			slot = mapput(&m, &k);
			disarm();
			if ((long)(intptr_t)*slot != refv[id]) {
				printf("VIOL long-put-slot-differs n=%lu stride=%lu i=%lu\n", n, stride, i);
				return 1;
			}
			refv[id] = i + 1;
			*slot = (void *)(intptr_t)(i + 1);
		}
	}
	for (j = 0, id = 0; id < mod; ++id) {
		if (!names[id])
			continue;
		if (refv[id])
			++j;  /* refv is non-zero exactly for the names that were put */
		mapkey(&k, names[id], strlen(names[id]));
		if ((long)(intptr_t)mapget(&m, &k) != refv[id]) {
			printf("VIOL long-final-get-differs n=%lu stride=%lu id=%lu\n", n, stride, id);
			return 1;
		}
	}
	if (m.len != j) {
		printf("VIOL long-len n=%lu stride=%lu\n", n, stride);
		return 1;
	}
	printf("{\"mode\":\"long\",\"n\":%lu,\"stride\":%lu,\"keys\":%lu,\"cap\":%zu,\"violations\":0}\n", n, stride, j, m.cap);
	return 0;
}

int
main(int argc, char *argv[])
{
	struct map m;
	struct ref r;
	unsigned char h[256];
	int len = 0;
	char *p, c1[4096];

	argv0 = "mapmc";
	signal(SIGALRM, onalarm);
	if (argc >= 4 && strcmp(argv[1], "long") == 0)
		return longrun(strtoul(argv[2], NULL, 0), strtoul(argv[3], NULL, 0));
	if (argc < 4) {
		fprintf(stderr, "usage: mapmc bfs CAP0 DEPTH [dump] | replay CAP0 ops | long N STRIDE\n");
		return 2;
	}
	CAP0 = atoi(argv[2]);
	if (strcmp(argv[1], "replay") == 0) {
		for (p = strtok(argv[3], ","); p; p = strtok(NULL, ","))
			h[len++] = atoi(p);
		curhist = h, curlen = len;
		if (rebuild(&m, &r, h, len, true)) {
			canon(&m, c1);
			printf("table %s\n", c1);
			checkstate(&m, &r);
		}
		printf(nviol ? "REPRODUCED\n" : "OK\n");
		return nviol ? 1 : 0;
	}
	DEPTH = atoi(argv[3]);
	if (DEPTH > MAXD)
		DEPTH = MAXD;
	OPMODE = argc > 4 ? atoi(argv[4]) : 0;
	bfs(argc > 5);
	stats(OPMODE ? "bfs-growth" : "bfs");
	return nviol ? 1 : 0;
}
