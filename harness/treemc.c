/*
 * K1 explicit-state model checker for /repo's tree.c (property C15).
 *
 * treemc hist N MAPID       every insertion history of distinct keys from a universe of N keys
 *                           (DFS; the tree of every prefix is rebuilt by replay on a fresh root)
 * treemc bfs N MAPID [dump] breadth-first search over distinct tree states (exact dedup on
 *                           (key, height, shape) pre-order), one representative history per
 *                           state; with `dump` prints "S <history>" for every distinct state
 * treemc replay MAPID k1,k2,...   replay one history, print the tree, check the invariants
 * treemc big N ORDER        large deterministic key orders (0 asc, 1 desc, 2 organ-pipe,
 *                           3 bit-reversed, 4 stride-7) checked against a sorted array
 *
 * In every state: in-order = sorted reference set; |h(l)-h(r)| <= 1; stored height = true
 * height; returned node carries the key; `new` true iff key absent from the reference;
 * re-insertion of a present key changes nothing; height <= 1.4405 log2(n+2).
 */
#include <math.h>
#include <stdbool.h>
#include <stdint.h>
#include <stdio.h>
#include <stdlib.h>
#include <string.h>
#include "util.h"

extern char *argv0;

struct node {
	struct treenode n;
	long payload;
};

enum { MAXN = 24 };

static unsigned long long keymap[8][MAXN] = {
	/* 0: small positives */
	{1, 2, 3, 4, 5, 6, 7, 8, 9, 10, 11, 12, 13, 14, 15, 16, 17, 18, 19, 20, 21, 22, 23, 24},
	/* 1: extremes of the unsigned 64-bit order (sign-extended negatives are the big ones) */
	{0, 1, 0x7fffffffull, 0x80000000ull, 0xffffffffull, 0x100000000ull, 0x7fffffffffffffffull,
	 0x8000000000000000ull, 0xffffffff7fffffffull, 0xffffffff80000000ull, 0xfffffffffffffffeull,
	 0xffffffffffffffffull},
};
static int maplen[8] = {24, 12};

static unsigned long nhist, nstates, ntrans, nreins, rotc[4], maxh, nviol;
static int N, MAP;
static const char *MODE = "replay";

static void
stats(void)
{
	printf("{\"mode\":\"%s\",\"n\":%d,\"map\":%d,\"histories\":%lu,\"states\":%lu,\"transitions\":%lu,"
	       "\"reinsertions\":%lu,\"rot_single_left\":%lu,\"rot_single_right\":%lu,\"rot_double_left\":%lu,"
	       "\"rot_double_right\":%lu,\"max_height\":%lu,\"violations\":%lu}\n",
	       MODE, N, MAP, nhist, nstates, ntrans, nreins, rotc[0], rotc[1], rotc[2], rotc[3], maxh, nviol);
}

static void
violation(const char *what, const int *hist, int len, int extra)
{
	int i;

	printf("VIOL %s map=%d history=", what, MAP);
	for (i = 0; i < len; ++i)
		printf("%s%d", i ? "," : "", hist[i]);
	if (extra >= 0)
		printf(" then=%d", extra);
	printf("\n");
	if (++nviol > 20) {
		stats();
		exit(1);
	}
}

/* ---- inspection ---- */

static int
trueheight(struct treenode *n)
{
	int a, b;

	if (!n)
		return 0;
	a = trueheight(n->child[0]);
	b = trueheight(n->child[1]);
	return (a > b ? a : b) + 1;
}

static bool
checknode(struct treenode *n, unsigned long long *prev, bool *first, const char **why)
{
	int a, b;

	if (!n)
		return true;
	if (!checknode(n->child[0], prev, first, why))
		return false;
	if (!*first && n->key <= *prev) {
		*why = "order";
		return false;
	}
	*first = false;
	*prev = n->key;
	a = trueheight(n->child[0]);
	b = trueheight(n->child[1]);
	if (a - b > 1 || b - a > 1) {
		*why = "balance";
		return false;
	}
	if (n->height != (a > b ? a : b) + 1) {
		*why = "stored-height";
		return false;
	}
	return checknode(n->child[1], prev, first, why);
}

static int
count(struct treenode *n)
{
	return n ? 1 + count(n->child[0]) + count(n->child[1]) : 0;
}

static bool
contains(struct treenode *n, unsigned long long k)
{
	while (n) {
		if (n->key == k)
			return true;
		n = n->child[k > n->key];
	}
	return false;
}

static char *
canon(struct treenode *n, char *p)
{
	if (!n) {
		*p++ = '.';
		return p;
	}
	p += sprintf(p, "(%llx:%d", n->key, n->height);
	p = canon(n->child[0], p);
	p = canon(n->child[1], p);
	*p++ = ')';
	return p;
}

static void
freetree(struct treenode *n)
{
	if (!n)
		return;
	freetree(n->child[0]);
	freetree(n->child[1]);
	free(n);
}

/* classify the rotation (if any) by comparing the tree before and after an insertion */
struct snap {
	unsigned long long key;
	int l, r;
};

static int
snapshot(struct treenode *n, struct snap *s, int *cnt)
{
	int i;

	if (!n)
		return -1;
	i = (*cnt)++;
	s[i].key = n->key;
	s[i].l = snapshot(n->child[0], s, cnt);
	s[i].r = snapshot(n->child[1], s, cnt);
	return i;
}

static void
classify_path(struct snap *s, int root, struct treenode *n, unsigned long long key)
{
	int i = root, c, dir;

	while (i >= 0 && n) {
		if (s[i].key != n->key) {
			dir = n->key > s[i].key;
			c = dir ? s[i].r : s[i].l;
			if (c >= 0 && s[c].key == n->key)
				++rotc[dir];
			else
				++rotc[2 + dir];
			return;
		}
		dir = key > n->key;
		i = dir ? s[i].r : s[i].l;
		n = n->child[dir];
	}
}

/* ---- one checked insertion ---- */

static bool
insert(void **root, unsigned long long key, bool expectnew, const int *hist, int len, int extra)
{
	struct node *n;
	struct snap s[MAXN + 1];
	int cnt = 0, sroot;
	bool ok = true;

	sroot = snapshot(*root, s, &cnt);
	n = treeinsert(root, key, sizeof(*n));
	if (!n || n->n.key != key) {
		violation("returned-node-key", hist, len, extra);
		return false;
	}
	if (n->n.new != expectnew) {
		violation(expectnew ? "new-flag-false-for-absent-key" : "new-flag-true-for-present-key", hist, len, extra);
		ok = false;
	}
	if (expectnew)
		classify_path(s, sroot, *root, key);
	return ok;
}

static bool
checkstate(void *root, int nkeys, const int *hist, int len, int extra)
{
	unsigned long long prev = 0;
	bool first = true;
	const char *why = NULL;
	int h;

	if (!checknode(root, &prev, &first, &why)) {
		violation(why, hist, len, extra);
		return false;
	}
	if (count(root) != nkeys) {
		violation("node-count", hist, len, extra);
		return false;
	}
	h = trueheight(root);
	if ((unsigned long)h > maxh)
		maxh = h;
	if (nkeys > 0 && h > floor(1.4405 * log2(nkeys + 2.0))) {
		violation("height-bound", hist, len, extra);
		return false;
	}
	return true;
}

static void *
rebuild(const int *hist, int len, bool check)
{
	void *root = NULL;
	int i, j;
	bool isnew;

	for (i = 0; i < len; ++i) {
		isnew = true;
		for (j = 0; j < i; ++j)
			if (hist[j] == hist[i])
				isnew = false;
		if (check) {
			if (!insert(&root, keymap[MAP][hist[i]], isnew, hist, i, hist[i]))
				return root;
		} else {
			treeinsert(&root, keymap[MAP][hist[i]], sizeof(struct node));
		}
	}
	return root;
}

/* ---- hash set of canonical states ---- */

struct set {
	char **tab;
	size_t cap, len;
};

static unsigned long
strhash(const char *s)
{
	unsigned long h = 1469598103934665603ul;

	for (; *s; ++s)
		h = (h ^ (unsigned char)*s) * 1099511628211ul;
	return h;
}

static bool
setadd(struct set *s, const char *str)
{
	size_t i, j, oc;
	char **ot;

	if (s->len * 2 >= s->cap) {
		oc = s->cap, ot = s->tab;
		s->cap = oc ? oc * 2 : 1024;
		s->tab = calloc(s->cap, sizeof(char *));
		for (j = 0; j < oc; ++j) {
			if (!ot[j])
				continue;
			i = strhash(ot[j]) & (s->cap - 1);
			while (s->tab[i])
				i = (i + 1) & (s->cap - 1);
			s->tab[i] = ot[j];
		}
		free(ot);
	}
	i = strhash(str) & (s->cap - 1);
	while (s->tab[i]) {
		if (strcmp(s->tab[i], str) == 0)
			return false;
		i = (i + 1) & (s->cap - 1);
	}
	s->tab[i] = strdup(str);
	++s->len;
	return true;
}

static struct set seen;

/* checks done in every state reached by `hist` */
static void
visit(const int *hist, int len)
{
	void *root, *root2;
	char c1[64 * MAXN], c2[64 * MAXN];
	int i;
	unsigned long saved[4];

	root = rebuild(hist, len, false);
	*canon(root, c1) = 0;
	/* replay determinism: the same history on a fresh root gives the same canonical state */
	root2 = rebuild(hist, len, false);
	*canon(root2, c2) = 0;
	freetree(root2);
	if (strcmp(c1, c2) != 0)
		violation("replay-diverges", hist, len, -1);
	if (setadd(&seen, c1))
		++nstates;
	if (!checkstate(root, len, hist, len, -1)) {
		freetree(root);
		return;
	}
	/* re-insertion of every present key: found, not new, nothing changes */
	memcpy(saved, rotc, sizeof(saved));
	for (i = 0; i < len; ++i) {
		++nreins;
		if (!insert(&root, keymap[MAP][hist[i]], false, hist, len, hist[i]))
			break;
		*canon(root, c2) = 0;
		if (strcmp(c1, c2) != 0) {
			violation("reinsert-changes-tree", hist, len, hist[i]);
			break;
		}
	}
	memcpy(rotc, saved, sizeof(saved));
	/* membership agrees with the reference set for the whole universe */
	for (i = 0; i < N; ++i) {
		bool in = false;
		int j;

		for (j = 0; j < len; ++j)
			if (hist[j] == i)
				in = true;
		if (contains(root, keymap[MAP][i]) != in) {
			violation("membership", hist, len, i);
			break;
		}
	}
	freetree(root);
}

static void
dfs(int *hist, int len, unsigned used)
{
	int k;
	void *root;

	++nhist;
	visit(hist, len);
	for (k = 0; k < N; ++k) {
		if (used & 1u << k)
			continue;
		++ntrans;
		/* the transition itself, with the new-flag and rotation classification checked */
		hist[len] = k;
		root = rebuild(hist, len, false);
		insert(&root, keymap[MAP][k], true, hist, len, k);
		freetree(root);
		dfs(hist, len + 1, used | 1u << k);
	}
}

struct qent {
	unsigned char h[MAXN];
	unsigned char len;
};

static void
bfs(bool dump)
{
	struct qent *q;
	size_t head = 0, tail = 0, cap = 1 << 16;
	int hist[MAXN + 1], i, k;
	char c1[64 * MAXN];
	void *root;
	unsigned used;

	q = malloc(cap * sizeof(*q));
	q[tail++].len = 0;
	setadd(&seen, ".");
	nstates = 1;
	while (head < tail) {
		struct qent e = q[head++];

		for (i = 0; i < e.len; ++i)
			hist[i] = e.h[i];
		++nhist;
		visit(hist, e.len);
		if (dump) {
			printf("S ");
			for (i = 0; i < e.len; ++i)
				printf("%s%d", i ? "," : "", hist[i]);
			printf("\n");
		}
		used = 0;
		for (i = 0; i < e.len; ++i)
			used |= 1u << hist[i];
		for (k = 0; k < N; ++k) {
			if (used & 1u << k)
				continue;
			++ntrans;
			hist[e.len] = k;
			root = rebuild(hist, e.len, false);
			insert(&root, keymap[MAP][k], true, hist, e.len, k);
			*canon(root, c1) = 0;
			freetree(root);
			if (setadd(&seen, c1)) {
				++nstates;
				if (tail == cap) {
					cap *= 2;
					q = realloc(q, cap * sizeof(*q));
				}
				for (i = 0; i <= e.len; ++i)
					q[tail].h[i] = hist[i];
				q[tail++].len = e.len + 1;
			}
		}
	}
	/* visit() counted states again through setadd returning false; fix up */
	nstates = seen.len;
	free(q);
}

static void
printtree(struct treenode *n, int depth)
{
	if (!n)
		return;
	printtree(n->child[1], depth + 1);
	printf("%*s%llu (h=%d)\n", depth * 4, "", n->key, n->height);
	printtree(n->child[0], depth + 1);
}

static unsigned long long
bigkey(unsigned long i, unsigned long n, int order)
{
	unsigned long j, b, r;

	switch (order) {
	case 0: j = i; break;
	case 1: j = n - 1 - i; break;
	case 2: j = i % 2 ? n - 1 - i / 2 : i / 2; break;
	case 3:
		for (b = 1; b < n; b <<= 1)
			;
		/* bit-reversed counter restricted to < n: enumerate by scanning */
		j = 0;
		{
			unsigned long c = 0, x;

			for (x = 0; x < b; ++x) {
				unsigned long y = 0, t = x, w;

				for (w = b >> 1; w; w >>= 1, t >>= 1)
					if (t & 1)
						y |= w;
				if (y < n) {
					if (c == i) {
						j = y;
						break;
					}
					++c;
				}
			}
		}
		break;
	default:
		j = i * 7 % n;  /* n chosen coprime to 7 by the caller */
		break;
	}
	r = j;
	/* spread over the 64-bit space, keep order: interleave around 2^63 */
	return (unsigned long long)r * 0x1000193ull + (r % 2 ? 0x8000000000000000ull : 0);
}

static int
cmpull(const void *a, const void *b)
{
	unsigned long long x = *(const unsigned long long *)a, y = *(const unsigned long long *)b;

	return x < y ? -1 : x > y;
}

static unsigned long long *inord;
static size_t ninord;

static void
inorder(struct treenode *n)
{
	if (!n)
		return;
	inorder(n->child[0]);
	inord[ninord++] = n->key;
	inorder(n->child[1]);
}

static int
big(unsigned long n, int order)
{
	void *root = NULL;
	unsigned long long *ref, k;
	unsigned long i;
	struct node *nd;
	int hist[1] = {0};
	int h;

	if (order == 3 && n > 4096)
		n = 4096;
	ref = malloc(n * sizeof(*ref));
	inord = malloc(n * sizeof(*inord));
	for (i = 0; i < n; ++i) {
		k = bigkey(i, n, order);
		ref[i] = k;
		nd = treeinsert(&root, k, sizeof(*nd));
		if (!nd->n.new || nd->n.key != k) {
			printf("VIOL big-new-flag n=%lu order=%d i=%lu\n", n, order, i);
			return 1;
		}
		nd = treeinsert(&root, k, sizeof(*nd));
		if (nd->n.new) {
			printf("VIOL big-reinsert-new n=%lu order=%d i=%lu\n", n, order, i);
			return 1;
		}
	}
	qsort(ref, n, sizeof(*ref), cmpull);
	ninord = 0;
	inorder(root);
	if (ninord != n || memcmp(ref, inord, n * sizeof(*ref)) != 0) {
		printf("VIOL big-inorder n=%lu order=%d\n", n, order);
		return 1;
	}
	N = 0;
	{
		unsigned long long prev = 0;
		bool first = true;
		const char *why = NULL;

		if (!checknode(root, &prev, &first, &why)) {
			printf("VIOL big-%s n=%lu order=%d\n", why, n, order);
			return 1;
		}
	}
	h = trueheight(root);
	if (h > floor(1.4405 * log2(n + 2.0))) {
		printf("VIOL big-height n=%lu order=%d h=%d\n", n, order, h);
		return 1;
	}
	printf("{\"mode\":\"big\",\"n\":%lu,\"order\":%d,\"height\":%d,\"violations\":0}\n", n, order, h);
	(void)hist;
	return 0;
}

int
main(int argc, char *argv[])
{
	int hist[MAXN + 1], len = 0, i;

	argv0 = "treemc";
	char *p;
	void *root;
	char c1[64 * MAXN];

	if (argc >= 4 && strcmp(argv[1], "big") == 0)
		return big(strtoul(argv[2], NULL, 0), atoi(argv[3]));
	if (argc < 4) {
		fprintf(stderr, "usage: treemc hist|bfs N MAP [dump] | replay MAP k,k,... | big N ORDER\n");
		return 2;
	}
	if (strcmp(argv[1], "replay") == 0) {
		MAP = atoi(argv[2]);
		N = maplen[MAP];
		for (p = strtok(argv[3], ","); p; p = strtok(NULL, ","))
			hist[len++] = atoi(p);
		root = rebuild(hist, len, true);
		printtree(root, 0);
		*canon(root, c1) = 0;
		printf("canon %s\n", c1);
		{
			int nk = 0, j;

			for (i = 0; i < len; ++i) {
				for (j = 0; j < i; ++j)
					if (hist[j] == hist[i])
						break;
				if (j == i)
					++nk;
			}
			checkstate(root, nk, hist, len, -1);
		}
		printf(nviol ? "REPRODUCED\n" : "OK\n");
		return nviol ? 1 : 0;
	}
	N = atoi(argv[2]);
	MAP = atoi(argv[3]);
	if (N > maplen[MAP] || N > MAXN) {
		fprintf(stderr, "N too large for map\n");
		return 2;
	}
	MODE = argv[1];
	if (strcmp(argv[1], "hist") == 0)
		dfs(hist, 0, 0);
	else
		bfs(argc > 4);
	stats();
	return nviol ? 1 : 0;
}
