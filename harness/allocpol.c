/*
 * Replacement allocator with selectable placement/fill policy (property C20): any output byte that
 * depends on an address, on address order, or on recycled/uninitialised heap contents changes under
 * at least one policy.  Policy = getenv("ALLOCPOL") as an integer:
 *   0 bump up, fresh memory 0x00      1 bump up, fresh memory 0x55     2 bump up, fresh memory 0xff
 *   3 bump DOWN (every new block at a lower address), fill 0xaa
 *   4 LIFO reuse of freed blocks (exact size), freed memory poisoned 0xdd
 *   5 FIFO reuse of freed blocks, poisoned 0xee     6 every block 4096-aligned, fill 0x5a
 */
#define _GNU_SOURCE
#include <errno.h>
#include <stdint.h>
#include <stdlib.h>
#include <string.h>
#include <sys/mman.h>
#include <unistd.h>

#define ARENA ((size_t)1 << 32)

struct hdr {
	size_t size;
	struct hdr *next;
};

static char *base, *lo, *hi;
static int policy = -1;
static struct hdr *freelist[64], *freetail[64];

static void
init(void)
{
	const char *p;
	char **e;
	extern char **environ;

	policy = 0;
	for (e = environ; e && *e; ++e) {
		if (strncmp(*e, "ALLOCPOL=", 9) == 0) {
			p = *e + 9;
			policy = *p - '0';
		}
	}
	base = mmap(NULL, ARENA, PROT_READ | PROT_WRITE, MAP_PRIVATE | MAP_ANONYMOUS | MAP_NORESERVE, -1, 0);
	if (base == MAP_FAILED)
		_exit(111);
	lo = base;
	hi = base + ARENA;
}

static int
class(size_t n)
{
	int c = 0;

	while (((size_t)16 << c) < n && c < 63)
		++c;
	return c;
}

void *
malloc(size_t n)
{
	struct hdr *h;
	size_t sz, align = 16;
	int c, fill;
	char *p;

	if (policy < 0)
		init();
	if (n == 0)
		n = 1;
	c = class(n);
	sz = (size_t)16 << c;
	if ((policy == 4 || policy == 5) && freelist[c]) {
		h = freelist[c];
		freelist[c] = h->next;
		if (!freelist[c])
			freetail[c] = NULL;
		h->size = n;
		return h + 1;  /* recycled contents (poison) stay visible */
	}
	if (policy == 6)
		align = 4096;
	if (policy == 3) {
		hi -= sz + sizeof(*h) + align;
		p = (char *)(((uintptr_t)hi + sizeof(*h) + align - 1) & ~(uintptr_t)(align - 1));
		if (hi < lo) {
			errno = ENOMEM;
			return NULL;
		}
	} else {
		p = (char *)(((uintptr_t)lo + sizeof(*h) + align - 1) & ~(uintptr_t)(align - 1));
		lo = p + sz;
		if (lo > hi) {
			errno = ENOMEM;
			return NULL;
		}
	}
	h = (struct hdr *)p - 1;
	h->size = n;
	fill = policy == 1 ? 0x55 : policy == 2 ? 0xff : policy == 3 ? 0xaa : policy == 6 ? 0x5a : 0;
	if (fill)
		memset(p, fill, sz);
	return p;
}

void
free(void *p)
{
	struct hdr *h;
	int c;

	if (!p)
		return;
	h = (struct hdr *)p - 1;
	c = class(h->size);
	if (policy == 4 || policy == 5) {
		memset(p, policy == 4 ? 0xdd : 0xee, (size_t)16 << c);
		h->next = NULL;
		if (policy == 4) {
			h->next = freelist[c];
			freelist[c] = h;
			if (!freetail[c])
				freetail[c] = h;
		} else {
			if (freetail[c])
				freetail[c]->next = h;
			else
				freelist[c] = h;
			freetail[c] = h;
		}
	}
}

void *
calloc(size_t n, size_t m)
{
	void *p;

	if (m && n > SIZE_MAX / m) {
		errno = ENOMEM;
		return NULL;
	}
	p = malloc(n * m);
	if (p)
		memset(p, 0, n * m);
	return p;
}

void *
realloc(void *p, size_t n)
{
	struct hdr *h;
	void *q;

	if (!p)
		return malloc(n);
	h = (struct hdr *)p - 1;
	if (class(n ? n : 1) == class(h->size) && policy != 3) {
		h->size = n ? n : 1;
		return p;
	}
	q = malloc(n);
	if (!q)
		return NULL;
	memcpy(q, p, h->size < n ? h->size : n);
	free(p);
	return q;
}
