#!/bin/sh
# Stub tool for the real-process conformance replay (C17/C18): records argv and the provenance of
# its standard input in $STUBLOG, writes "<own name><<upstream chain>" to -o FILE or standard output.
# Fault injection (C18): STUBFATE_<name> in {ok, early, half, late, segv, kill}.
name=$(basename "$0")
args=
out=
prev=
for a in "$@"; do
	if [ -n "$args" ]; then args="$args$(printf '\037')$a"; else args=$a; fi
	[ "$prev" = "-o" ] && out=$a
	prev=$a
done
fate=$(eval "printf '%s' \"\${STUBFATE_$(printf '%s' "$name" | tr -c 'A-Za-z0-9' '_')}\"")
case "$fate" in
early) printf '%s\036%s\036%s\n' "$0" "$args" "(not read)" >> "$STUBLOG"; exit 1 ;;
segv) printf '%s\036%s\036%s\n' "$0" "$args" "(not read)" >> "$STUBLOG"; kill -SEGV $$ ;;
kill) printf '%s\036%s\036%s\n' "$0" "$args" "(not read)" >> "$STUBLOG"; kill -KILL $$ ;;
esac
incoming=
if [ -p /dev/stdin ]; then
	incoming=$(cat)
fi
printf '%s\036%s\036%s\n' "$0" "$args" "$incoming" >> "$STUBLOG"
if [ -n "$incoming" ]; then line="$name<$incoming"; else line=$name; fi
if [ -n "$out" ]; then
	printf '%s\n' "$line" > "$out"
else
	printf '%s\n' "$line"
fi
case "$fate" in
half|late) exit 1 ;;
esac
exit 0
