setup:
	@mkdir -p /verif/build /verif/evidence
	@echo setup ok
